import time; t0=time.time()
import shim, numpy as np
import pyclifford as pc
t1=time.time(); print('import',t1-t0)
s=pc.random_clifford_state(3,1); t2=time.time(); print('rcs',t2-t1)
s.measure(pc.paulis('ZII')); t3=time.time(); print('measure',t3-t2)
s.expect(pc.paulis('ZII')); s.entropy([0]); s.expect(s) if s.r==0 else None; t4=time.time(); print('expect/entropy',t4-t3)
m=pc.random_clifford_map(3); m.inverse().compose(m); t5=time.time(); print('inv/compose',t5-t4)
(pc.pauli('XX')+pc.pauli('YY'))@(pc.pauli('XX')+pc.pauli('ZZ')); t6=time.time(); print('poly',t6-t5)
pc.diagonalize(pc.pauli('XYZ')).forward(pc.pauli('XYZ')); pc.stabilizer_state('ZZ','XX'); pc.zero_state(2).postselect(pc.pauli('XX'),0); print('rest',time.time()-t6)
print('total',time.time()-t0)
