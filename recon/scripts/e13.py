import shim, orac, numpy as np, itertools, collections
import pyclifford as pc
from pyclifford import utils
from orac import dense, rho_of
np.random.seed(10)
kinds={}
def flag(k): kinds[k]=kinds.get(k,0)+1
# C19 sample
for t in range(300):
    N=np.random.randint(1,5); r=np.random.randint(0,N+1)
    s=pc.random_clifford_state(N,r)
    sm=s.sample(20)
    xs=s.expect(sm)
    if not (xs==1).all(): flag('sample-sign')
    rho=rho_of(s)
    for k in range(sm.L):
        if not np.isclose(np.trace(rho@dense(sm.gs[k],sm.ps[k])).real,1): flag('sample-dense'); break
    try:
        dm=s.density_matrix
        Dm=sum((dm.cs[k]*dense(dm.gs[k],dm.ps[k]) for k in range(dm.L)))
        if not np.allclose(Dm,rho): flag(('dm-val',r))
        if dm.L!=2**(N-r) or len({dm.gs[k].tobytes() for k in range(dm.L)})!=dm.L: flag('dm-count')
    except Exception as e: flag(('dm-exc',N,r,type(e).__name__,str(e)[:60]))
print(kinds)
# uniform sample
s=pc.random_clifford_state(3,1); c=collections.Counter()
sm=s.sample(8000)
for k in range(sm.L): c[(sm.gs[k].tobytes(),int(sm.ps[k]))]+=1
print(len(c), sorted(c.values()))
# shadows
for t in range(200):
    N=np.random.choice([2,4]); r=np.random.randint(0,N+1)
    base=pc.random_clifford_state(N,r); b0=(base.gs.copy(),base.ps.copy(),base.r)
    circ=[pc.onsite_rcc(N),pc.global_rcc(N),pc.brickwall_rcc(N,2)][np.random.randint(3)]
    sh=pc.ClassicalShadow(base,circ)
    for snap in sh.snapshots(5):
        rs=rho_of(snap)
        if not (np.isclose(np.trace(rs),1) and np.allclose(rs@rs*2**snap.r, rs)): flag('snap-invalid')
        if np.trace(rs@rho_of(base)).real<1e-9: flag(('snap-orth',r>0))
    if not ((base.gs==b0[0]).all() and (base.ps==b0[1]).all() and base.r==b0[2]): flag('base-touched')
print(kinds)
