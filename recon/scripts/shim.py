import numpy, warnings
warnings.filterwarnings('ignore')
if not hasattr(numpy,'complex_'): numpy.complex_ = numpy.complex128
if not hasattr(numpy,'int'): numpy.int = int
