"""class-level + remaining kernel-level differential torch vs pyclifford (on candidate-fixed tree)"""
import shim, orac, numpy as np, itertools, collections, torch, traceback, warnings
warnings.filterwarnings('ignore')
import pyclifford as pc, torchclifford as tc
from torchclifford import utils as tu, paulialg as tp, stabilizer as ts, circuit as tcirc
from pyclifford import utils as pu, circuit as pcirc
np.random.seed(5); torch.manual_seed(5)
kinds=collections.Counter()
def flag(*k): kinds[k]+=1
T=lambda a: torch.tensor(np.asarray(a),dtype=torch.float32)
I=lambda t: np.asarray(t.detach().cpu().numpy() if torch.is_tensor(t) else t).round().astype(int)
def tryit(name,f):
    try: return f()
    except Exception as e:
        flag('exc',name,type(e).__name__,str(e)[:60]); return None
def eqP(a,b): return np.array_equal(I(a.g),b.g) and int(a.p)%4==int(b.p)%4
def eqL(a,b): return np.array_equal(I(a.gs),b.gs) and np.array_equal(I(a.ps)%4,np.asarray(b.ps)%4)
def tstate(s): return ts.StabilizerState(T(s.gs),T(s.ps),s.r)
def tmap(m): return ts.CliffordMap(T(m.gs),T(m.ps))
for t in range(150):
    N=np.random.randint(1,5)
    g=np.random.randint(0,2,2*N); g2=np.random.randint(0,2,2*N)
    # kernels
    r=tryit('front',lambda:int(tu.front(T(g))));  e=pu.front(g)
    if r is not None and g.any() and r!=e: flag('front')
    r=tryit('condense',lambda:tu.condense(T(g))); e=pu.condense(g)
    if r is not None and not (np.array_equal(I(r[0]),e[0]) and np.array_equal(I(r[1]),e[1])): flag('condense')
    i0=np.random.randint(N)
    r=tryit('onsite',lambda:bool(tu.pauli_is_onsite(T(g),i0))); e=pu.pauli_is_onsite(g,i0)
    if r is not None and r!=e: flag('onsite')
    if g.any():
        r=tryit('diag1',lambda:tu.pauli_diagonalize1(T(g),i0)); e=pu.pauli_diagonalize1(g,i0)
        if r is not None and not (len(r)==len(e) and all(np.array_equal(I(a),b) for a,b in zip(r,e))): flag('diag1')
    if pu.acq(g,g2):
        r=tryit('diag2',lambda:tu.pauli_diagonalize2(T(g),T(g2),i0)); e=pu.pauli_diagonalize2(g,g2,i0)
        if r is not None and not (len(r[0])==len(e[0]) and all(np.array_equal(I(a),b) for a,b in zip(r[0],e[0])) and np.array_equal(I(r[1]),e[1]) and np.array_equal(I(r[2]),e[2])): flag('diag2')
    gs=np.random.randint(0,2,(4,2*N))
    r=tryit('signless',lambda:tu.clifford_rotate_signless(T(g),T(gs))); e=pu.clifford_rotate_signless(g,gs.copy())
    if r is not None and not np.array_equal(I(r),e): flag('signless')
    M=np.random.randint(0,2,(np.random.randint(1,6),np.random.randint(1,6)))
    r=tryit('z2rank',lambda:int(tu.z2rank(T(M)))); e=pu.z2rank(M.copy())
    if r is not None and r!=e: flag('z2rank')
    ints=np.random.randint(0,16,5)
    r=tryit('binary_repr',lambda:tu.binary_repr(torch.tensor(ints),4)); e=pu.binary_repr(ints,4)
    if r is not None and not np.array_equal(I(r),e): flag('binary_repr')
    qs=sorted(np.random.choice(N,np.random.randint(1,N+1),replace=False).tolist())
    r=tryit('mask',lambda:tu.mask(qs,N)); e=pu.mask(qs,N)
    if r is not None and not np.array_equal(I(r),e.astype(int)): flag('mask')
    C=np.random.randint(0,2,(3,4)); ps=np.random.randint(0,4,4)
    r=tryit('combine',lambda:tu.pauli_combine(T(C),T(gs),T(ps))); e=pu.pauli_combine(C,gs,ps)
    if r is not None and not (np.array_equal(I(r[0]),e[0]) and np.array_equal(I(r[1])%4,e[1])): flag('combine')
    # class-level parse
    s=''.join('IXYZ'[k] for k in np.random.randint(0,4,N)); pre=['','-','i','-i','+','+i'][np.random.randint(6)]
    a=tryit('pauli(str)',lambda:tc.pauli(pre+s)); b=pc.pauli(pre+s)
    if a is not None and not eqP(a,b): flag('pauli(str)')
    if a is not None:
        if repr(a)!=repr(b): flag('repr')
        r=tryit('tokenize',lambda:a.tokenize())
        if r is not None and not np.array_equal(I(r),b.tokenize()): flag('tokenize')
        r=tryit('weight',lambda:int(a.weight()))
        if r is not None and r!=b.weight(): flag('weight')
        r=tryit('trace',lambda:complex(a.trace()))
        if r is not None and abs(r-b.trace())>1e-6: flag('Pauli.trace',int(b.p))
        for c in (1,-1,1j,-1j):
            r=tryit('rmul',lambda:c*a)
            if r is not None and not eqP(r,c*b): flag('rmul',c)
        r=tryit('neg',lambda:-a)
        if r is not None and not eqP(r,-b): flag('neg')
    strs=[''.join('IXYZ'[k] for k in np.random.randint(0,4,N)) for _ in range(3)]
    strs=[['','-','i','-i'][np.random.randint(4)]+x for x in strs]
    A=tryit('paulis',lambda:tc.paulis(*strs)); B=pc.paulis(*strs)
    if A is not None:
        if not eqL(A,B): flag('paulis')
        r=tryit('L.trace',lambda:A.trace())
        if r is not None and not np.allclose(np.asarray(r),B.trace(),atol=1e-5): flag('L.trace')
        r=tryit('L.weight',lambda:A.weight())
        if r is not None and not np.array_equal(I(r),B.weight()): flag('L.weight')
        r=tryit('L[1:]',lambda:A[1:]);
        if r is not None and not eqL(r,B[1:]): flag('L[1:]')
        r=tryit('L[1]',lambda:A[1]);
        if r is not None and not eqP(r,B[1]): flag('L[1]')
        r=tryit('L[mask]',lambda:A[torch.tensor([True,False,True])]);
        if r is not None and not eqL(r,B[np.array([True,False,True])]): flag('L[mask]')
        # polynomial ops
        pa=tryit('as_poly',lambda:A.as_polynomial()); pb=B.as_polynomial()
        if pa is not None:
            cs=np.random.randn(3)+1j*np.random.randn(3)
            pa=pa.set_cs(torch.tensor(cs,dtype=torch.complex64)); pb=pb.set_cs(cs.copy())
            def eqPoly(x,y,name):
                try:
                    X=x.to_qutip().full() if len(x)>0 else 0; Y=y.to_qutip().full() if len(y)>0 else 0
                    if not np.allclose(X,Y,atol=1e-4): flag('poly',name)
                except Exception as ex: flag('exc-cmp',name,type(ex).__name__)
            for name,f in (('add',lambda p:p+p),('sub',lambda p:p-p[0:2]),('matmul',lambda p:p@p),('scale',lambda p:(0.5-2j)*p),('div',lambda p:p/(0.5-2j)),('neg',lambda p:-p),('reduce',lambda p:(p@p).reduce())):
                x=tryit('poly.'+name,lambda:f(pa))
                if x is not None: eqPoly(x,f(pb),name)
            x=tryit('poly.trace',lambda:complex((pa@pa).trace()))
            if x is not None and abs(x-(pb@pb).trace())>1e-3: flag('poly.trace')
    # maps / states
    m=pc.random_clifford_map(N); tm=tmap(m)
    n=np.random.randint(1,N+1); sub=pc.random_clifford_map(n); qs=sorted(np.random.choice(N,n,replace=False).tolist())
    r=tryit('embed',lambda:ts.identity_map(N).embed(tmap(sub),tu.mask(qs,N))); e=pc.identity_map(N).embed(sub,pu.mask(qs,N))
    if r is not None and not eqL(r,e): flag('embed')
    st=pc.random_clifford_state(N,np.random.randint(0,N+1)); tst=tstate(st)
    r=tryit('to_state',lambda:tm.to_state()); e=m.to_state()
    if r is not None and not (eqL(r,e) and r.r==e.r): flag('to_state')
    r=tryit('to_map',lambda:tst.to_map()); e=st.to_map()
    if r is not None and not eqL(r,e): flag('to_map')
    r=tryit('copy',lambda:tst.copy())
    if r is not None and not (eqL(r,st) and r.r==st.r): flag('state.copy')
    r=tryit('dm',lambda:tst.density_matrix)
    if r is not None:
        try:
            if not np.allclose(r.to_qutip().full(),st.density_matrix.to_qutip().full(),atol=1e-5): flag('dm')
        except Exception as ex: flag('exc-dm',type(ex).__name__)
    r=tryit('to_qutip',lambda:tst.to_qutip().full())
    if r is not None and not np.allclose(r,st.to_qutip().full(),atol=1e-6): flag('state.to_qutip')
    if st.r==0:
        b=np.random.randint(0,2,N)
        r=tryit('get_prob',lambda:float(tst.get_prob(torch.tensor(b)))); e=st.get_prob(b)
        if r is not None and abs(r-e)>1e-6: flag('get_prob')
    poly=pc.PauliPolynomial(np.random.randint(0,2,(3,2*N)),np.random.randint(0,4,3)).set_cs(np.random.randn(3)+0j)
    tpoly=tp.PauliPolynomial(T(poly.gs),T(poly.ps)).set_cs(torch.tensor(poly.cs,dtype=torch.complex64))
    r=tryit('expect.poly',lambda:complex(tst.expect(tpoly))); e=st.expect(poly)
    if r is not None and abs(r-e)>1e-4: flag('expect.poly')
    # constructors
    for name in ('zero_state','one_state','ghz_state','maximally_mixed_state'):
        r=tryit(name,lambda:getattr(tc,name)(N)); e=getattr(pc,name)(N)
        if r is not None and not (isinstance(r,ts.StabilizerState) and eqL(r,e) and r.r==e.r): flag(name)
    gen=pc.Pauli(np.random.randint(0,2,2*N),2*np.random.randint(0,2))
    r=tryit('rotation_map',lambda:ts.clifford_rotation_map(tp.Pauli(T(gen.g),gen.p))); e=pc.clifford_rotation_map(gen)
    if r is not None and not eqL(r,e): flag('rotation_map')
    comm=pc.random_clifford_state(N); L=np.random.randint(1,N+1); lst=pc.PauliList(comm.gs[:L].copy(),2*np.random.randint(0,2,L))
    r=tryit('stabilizer_state',lambda:tc.stabilizer_state(tp.PauliList(T(lst.gs),T(lst.ps)))); e=pc.stabilizer_state(lst)
    if r is not None and not (eqL(r,e) and r.r==e.r): flag('stabilizer_state')
    # circuits
    gates=[]
    for _ in range(np.random.randint(1,6)):
        n=np.random.randint(1,min(N,2)+1); qs=tuple(sorted(np.random.choice(N,n,replace=False).tolist()))
        k=np.random.randint(3)
        if k==0: gates.append(('map',qs,pc.random_clifford_map(n)))
        elif k==1:
            gg=np.random.randint(0,2,2*n)
            while not gg.reshape(n,2).any(axis=1).all(): gg=np.random.randint(0,2,2*n)
            gates.append(('gen',qs,pc.Pauli(gg,2*np.random.randint(0,2))))
        else: gates.append(('bmap',qs,pc.random_clifford_map(n)))
    def build(mod,conv_map,conv_p,circ):
        for kind,qs,x in gates:
            gt=mod.CliffordGate(*qs)
            if kind=='map': gt.set_forward_map(conv_map(x))
            elif kind=='bmap': gt.set_backward_map(conv_map(x))
            else: gt.set_generator(conv_p(x))
            circ.take(gt)
        return circ
    pcirc_=build(pcirc,lambda x:x.copy(),lambda x:x.copy(),pcirc.CliffordCircuit(N))
    tcirc_=tryit('build',lambda:build(tcirc,tmap,lambda x:tp.Pauli(T(x.g),x.p),tc.identity_circuit(N)))
    if tcirc_ is not None:
        lst=pc.PauliList(np.random.randint(0,2,(3,2*N)),np.random.randint(0,4,3)); tl=tp.PauliList(T(lst.gs),T(lst.ps))
        r=tryit('circ.fwd',lambda:tcirc_.forward(tl)); e=pcirc_.forward(lst.copy())
        if r is not None and not eqL(r,e): flag('circ.fwd')
        tl=tp.PauliList(T(lst.gs),T(lst.ps))
        r=tryit('circ.bwd',lambda:tcirc_.backward(tl)); e=pcirc_.backward(lst.copy())
        if r is not None and not eqL(r,e): flag('circ.bwd')
        c2=tryit('circ.copy',lambda:tcirc_.copy())
        ok=tryit('circ.compile',lambda:tcirc_.compile(N))
        pcirc_.compile()
        if ok is not None:
            tl=tp.PauliList(T(lst.gs),T(lst.ps))
            r=tryit('circ.cfwd',lambda:tcirc_.forward(tl)); e=pcirc_.forward(lst.copy())
            if r is not None and not eqL(r,e): flag('circ.cfwd')
            tl=tp.PauliList(T(lst.gs),T(lst.ps))
            r=tryit('circ.cbwd',lambda:tcirc_.backward(tl)); e=pcirc_.backward(lst.copy())
            if r is not None and not eqL(r,e): flag('circ.cbwd')
            tryit('circ.ccopy',lambda:tcirc_.copy())
    if gen.g.any():
        r=tryit('rotation_gate',lambda:tcirc.clifford_rotation_gate(tp.Pauli(T(gen.g),gen.p))); e=pc.clifford_rotation_gate(gen)
        if r is not None and not (tuple(int(q) for q in r.qubits)==tuple(int(q) for q in e.qubits) and eqP(r.generator,e.generator)): flag('rotation_gate')
        r=tryit('diagonalize',lambda:tc.diagonalize(tp.Pauli(T(gen.g),gen.p),i0).forward(tp.Pauli(T(gen.g),gen.p))); e=pc.diagonalize(gen,i0).forward(gen.copy())
        if r is not None and not eqP(r,e): flag('diagonalize')
    pure=pc.random_clifford_state(N)
    r=tryit('diag.state',lambda:tc.diagonalize(tstate(pure)).forward(tstate(pure)))
    if r is not None:
        e=pc.diagonalize(pure).forward(pure.copy())
        if not eqL(r,e): flag('diag.state')
for k,v in sorted(kinds.items(),key=str): print(v,k)
