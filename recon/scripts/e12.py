import shim, orac, numpy as np, itertools, collections
import pyclifford as pc
from pyclifford import utils
from orac import dense, rho_of
np.random.seed(9)
kinds={}
def flag(k): kinds[k]=kinds.get(k,0)+1
def validmap(m):
    N=m.N; A=utils.acq_mat(m.gs.astype(int))
    J=np.zeros((2*N,2*N),int)
    for i in range(N): J[2*i,2*i+1]=J[2*i+1,2*i]=1
    return (A==J).all() and (m.ps%2==0).all()
# C16 uniformity N=1, N=2
for N,n in ((1,24000),(2,200000)):
    cnt=collections.Counter(); sg=collections.Counter()
    for t in range(n):
        m=pc.random_clifford_map(N)
        if t<2000 and not validmap(m): flag('invalid')
        cnt[m.gs.tobytes()]+=1; sg[m.ps.tobytes()]+=1
    vals=np.array(list(cnt.values())); e=n/ (6 if N==1 else 720)
    chi2=((vals-e)**2/e).sum()
    print(N,'classes',len(cnt),'chi2',chi2,'dof',len(cnt)-1,'signs',len(sg), min(sg.values()),max(sg.values()))
for N in (3,4,5):
    for t in range(300):
        if not validmap(pc.random_clifford_map(N)): flag('invalid%d'%N)
        if not validmap(pc.random_pauli_map(N)): flag('invalidp%d'%N)
cnt=collections.Counter()
for t in range(36000):
    m=pc.random_pauli_map(2); cnt[m.gs.tobytes()]+=1
vals=np.array(list(cnt.values())); print('pauli map classes',len(cnt),'chi2',((vals-1000)**2/1000).sum())
# gate resample
g=pc.CliffordGate(0,1); outs=set()
for t in range(50):
    P=pc.pauli('XZ'); g.forward(P); outs.add(repr(P))
print('distinct outputs of random gate',len(outs))
print(kinds)
