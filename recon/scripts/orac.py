import shim, numpy as np, itertools
I2=np.eye(2,dtype=complex); X=np.array([[0,1],[1,0]],dtype=complex); Z=np.array([[1,0],[0,-1]],dtype=complex); Y=1j*X@Z
def dense(g,p=0):
    g=np.asarray(g).astype(int); N=len(g)//2
    m=np.array([[1]],dtype=complex)
    for i in range(N):
        x,z=g[2*i],g[2*i+1]
        s=[I2,Z,X,Y][x*2+z] if True else None
        s={ (0,0):I2,(1,0):X,(0,1):Z,(1,1):Y}[(x,z)]
        m=np.kron(m,s)
    return (1j**int(p))*m
def rho_of(state):
    N=state.N; D=2**N
    rho=np.eye(D,dtype=complex)
    for i in range(state.r,N):
        rho=rho@(np.eye(D)+dense(state.gs[i],state.ps[i]))/2
    return rho/2**state.r
