import shim, orac, orac2, numpy as np, itertools
import pyclifford as pc
from pyclifford import utils
from orac import dense, rho_of
np.random.seed(31)
kinds={}
def flag(k): kinds[k]=kinds.get(k,0)+1
def tryit(name,f):
    try: return f()
    except Exception as e: flag(('exc',name,type(e).__name__,str(e)[:70])); return None
# edge: maximally mixed
for N in (1,2,3):
    mm=pc.maximally_mixed_state(N)
    sm=tryit('mm.sample',lambda:mm.sample(4))
    if sm is not None and not ((sm.gs==0).all() and (sm.ps==0).all()): flag('mm.sample.val')
    dm=tryit('mm.dm',lambda:mm.density_matrix)
    if dm is not None:
        D=sum(dm.cs[k]*dense(dm.gs[k],dm.ps[k]) for k in range(dm.L))
        if not np.allclose(D,np.eye(2**N)/2**N): flag('mm.dm.val')
    for sub in ([],[0],list(range(N)),np.zeros(N,bool),np.ones(N,bool),tuple(range(N))):
        e=tryit('mm.entropy',lambda:mm.entropy(sub))
        exp=int(np.sum(sub)) if (len(sub) and isinstance(sub[0],(bool,np.bool_))) else len(sub)
        if e is not None and e!=exp: flag(('mm.entropy',str(sub),e,exp))
    z=pc.zero_state(N)
    for sub in ([],[0],np.zeros(N,bool),np.ones(N,bool)):
        e=tryit('z.entropy',lambda:z.entropy(sub))
        if e is not None and e!=0: flag(('z.entropy',str(sub),e))
# measurement edge cases: identity obs, duplicates, dependent lists, state as obs
for t in range(1500):
    N=np.random.randint(1,5); r=np.random.randint(0,N+1)
    st=pc.random_clifford_state(N,r); rho0=rho_of(st)
    o=pc.random_clifford_state(N)
    base=[(o.gs[i].copy(),int(2*np.random.randint(2))) for i in range(N)]
    lst=[]
    for _ in range(np.random.randint(1,5)):
        k=np.random.randint(4)
        if k==0: lst.append((np.zeros(2*N,int),2*np.random.randint(2)))
        elif k==1: lst.append(base[np.random.randint(N)])
        elif k==2:
            a,b=base[np.random.randint(N)],base[np.random.randint(N)]
            g,p=orac2.mul(a[0],a[1],b[0],b[1]); lst.append((g,p))
        else:
            # element of st's group
            if N-r>0:
                sm=st.sample(1); lst.append((sm.gs[0].copy(),int((sm.ps[0]+2*np.random.randint(2))%4)))
            else: lst.append(base[0])
    # ensure commuting
    ok=all(orac2.anti(a[0],b[0])==0 for a in lst for b in lst)
    if not ok: continue
    obs=pc.PauliList(np.array([a[0] for a in lst]),np.array([a[1] for a in lst]))
    res=tryit('measure',lambda:st.measure(obs))
    if res is None: continue
    out,lp=res
    D=2**N; P=np.eye(D,dtype=complex)
    for k in range(obs.L): P=P@(np.eye(D)+(-1)**out[k]*dense(obs.gs[k],obs.ps[k]))/2
    pr=np.trace(P@rho0).real
    if pr<1e-12: flag('impossible'); continue
    if abs(np.log2(pr)-lp)>1e-9: flag('lp')
    if not np.allclose(P@rho0@P/pr,rho_of(st)): flag('post')
    A=utils.acq_mat(st.gs.astype(int)); J=np.zeros((2*N,2*N),int)
    for i in range(N): J[i,N+i]=J[N+i,i]=1
    if not (A==J).all(): flag('symp')
# state as observable
for t in range(300):
    N=np.random.randint(1,4); st=pc.random_clifford_state(N,np.random.randint(0,N+1)); o=pc.random_clifford_state(N,np.random.randint(0,N+1))
    rho0=rho_of(st); res=tryit('measure-state',lambda:st.measure(o))
    if res is None: continue
    out,lp=res
    if len(out)!=N-o.r: flag('state-obs-len')
print(kinds)
