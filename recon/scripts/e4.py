import shim, orac, numpy as np, itertools
import pyclifford as pc
from pyclifford import utils
from orac import dense, rho_of
np.random.seed(2)
def valid(st):
    N=st.N; gs=st.gs; r=st.r
    if not (0<=r<=N): return 'r'
    A=utils.acq_mat(gs.astype(int))
    J=np.zeros((2*N,2*N),int)
    for i in range(N): J[i,N+i]=J[N+i,i]=1
    if not (A==J).all(): return 'symp'
    if not all(st.ps[i]%2==0 for i in range(r,N)): return 'herm'
    return None
# measurement on pure & mixed states vs projection
bad=0;cnt=0;kinds={}
for trial in range(2000):
    N=np.random.randint(1,5); r=np.random.randint(0,N+1)
    st=pc.random_clifford_state(N,r)
    rho0=rho_of(st)
    # commuting observables: take random commuting set from a random stabilizer state
    L=np.random.randint(1,N+1)
    o=pc.random_clifford_state(N)
    obs=pc.PauliList(o.gs[:L].copy(), 2*np.random.randint(0,2,L))
    out,lp=st.measure(obs)
    v=valid(st)
    if v: kinds[('inv',v,r>0)]=kinds.get(('inv',v,r>0),0)+1
    D=2**N
    P=np.eye(D,dtype=complex)
    for k in range(L):
        P=P@(np.eye(D)+(-1)**out[k]*dense(obs.gs[k],obs.ps[k]))/2
    pr=np.trace(P@rho0).real
    cnt+=1
    if pr<1e-12: kinds[('imposs',r>0)]=kinds.get(('imposs',r>0),0)+1; continue
    if abs(np.log2(pr)-lp)>1e-9: kinds[('lp',r>0)]=kinds.get(('lp',r>0),0)+1
    exp=P@rho0@P/pr
    if not np.allclose(exp,rho_of(st)): kinds[('post',r>0)]=kinds.get(('post',r>0),0)+1
    out2,lp2=st.measure(obs)
    if not ((out2==out).all() and lp2==0): kinds[('repeat',r>0)]=kinds.get(('repeat',r>0),0)+1
print(cnt,kinds)
