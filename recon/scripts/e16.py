import shim, orac, numpy as np, itertools, collections, copy as cp
import pyclifford as pc
from pyclifford import utils
from orac import dense, rho_of
np.random.seed(13)
kinds={}
def flag(k): kinds[k]=kinds.get(k,0)+1
def snap(o):
    d={}
    for a in ('g','p','gs','ps','cs','c','r'):
        if hasattr(o,a):
            v=getattr(o,a); d[a]=np.array(v).copy()
    return d
def eq(a,b): return a.keys()==b.keys() and all(np.array_equal(a[k],b[k]) for k in a)
def shares(a,b):
    for x in ('g','gs','ps','cs'):
        if hasattr(a,x) and hasattr(b,x):
            va,vb=getattr(a,x),getattr(b,x)
            if isinstance(va,np.ndarray) and isinstance(vb,np.ndarray) and np.shares_memory(va,vb): return x
    return None
for t in range(300):
    N=np.random.randint(1,5)
    objs={'Pauli':pc.Pauli(np.random.randint(0,2,2*N),np.random.randint(0,4)),
          'List':pc.PauliList(np.random.randint(0,2,(3,2*N)),np.random.randint(0,4,3)),
          'Mono':(0.5+1j)*pc.Pauli(np.random.randint(0,2,2*N),np.random.randint(0,4)),
          'Poly':pc.PauliPolynomial(np.random.randint(0,2,(3,2*N)),np.random.randint(0,4,3)).set_cs(np.random.randn(3)+0j),
          'Map':pc.random_clifford_map(N),'State':pc.random_clifford_state(N,np.random.randint(0,N+1))}
    for k,o in objs.items():
        c=o.copy()
        if type(c)!=type(o): flag(('type',k))
        if not eq(snap(o),snap(c)): flag(('copy-neq',k))
        sh=shares(o,c)
        if sh: flag(('shares',k,sh))
    # queries
    s=objs['State']; m=objs['Map']; l=objs['List']; herm=pc.PauliList(l.gs.copy(),2*(l.ps//2))
    def chk(name,f,*args):
        before=[snap(a) for a in args]
        try: f()
        except Exception as e: flag(('exc',name,type(e).__name__)); return
        for a,b in zip(args,before):
            if not eq(snap(a),b): flag(('mutated',name,type(a).__name__))
    chk('expect-list',lambda:s.expect(herm),s,herm)
    chk('expect-poly',lambda:s.expect(objs['Poly']),s,objs['Poly'])
    p0=pc.random_clifford_state(N)
    chk('expect-state',lambda:p0.expect(s),p0,s)
    chk('entropy',lambda:s.entropy([0]),s)
    chk('sample',lambda:s.sample(3),s)
    chk('get_prob',lambda:p0.get_prob(np.zeros(N,int)),p0)
    chk('to_qutip',lambda:s.to_qutip(),s)
    chk('dm',lambda:s.density_matrix,s)
    m2=pc.random_clifford_map(N)
    chk('compose',lambda:m.compose(m2),m,m2)
    chk('inverse',lambda:m.inverse(),m)
    chk('to_state',lambda:m.to_state(),m)
    chk('to_map',lambda:s.to_map(),s)
    chk('repr',lambda:(repr(s),repr(m),repr(l)),s,m,l)
    if objs['Pauli'].g.any(): chk('diag',lambda:pc.diagonalize(objs['Pauli']),objs['Pauli'])
    chk('diag-state',lambda:pc.diagonalize(p0),p0)
    comm=pc.random_clifford_state(N); lst=pc.PauliList(comm.gs[:N].copy(),comm.ps[:N].copy())
    chk('stabilizer_state',lambda:pc.stabilizer_state(lst),lst)
    # to_state result independence
    st2=m.to_state(); 
    if np.shares_memory(st2.gs,m.gs): flag('to_state-shares')
    mp2=s.to_map()
    if np.shares_memory(mp2.gs,s.gs): flag('to_map-shares')
    # in-place ops don't touch args
    g=pc.Pauli(np.random.randint(0,2,2*N),2*np.random.randint(0,2))
    chk('rotate-arg',lambda:s.rotate_by(g),g)
    chk('transform-arg',lambda:s.transform_by(m),m)
    chk('measure-arg',lambda:s.measure(herm_c),*( (herm_c:=pc.PauliList(comm.gs[:2].copy(),comm.ps[:2].copy())),))
    # stabilizers view / getitem aliasing
print(kinds)
