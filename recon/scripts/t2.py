import shim, orac, numpy as np, itertools, collections, torch, traceback
import pyclifford as pc, torchclifford as tc
from torchclifford import utils as tu, paulialg as tp, stabilizer as ts, circuit as tcirc
from pyclifford import utils as pu
from orac import dense
np.random.seed(1); torch.manual_seed(0)
kinds={}
def flag(k): kinds[k]=kinds.get(k,0)+1
T=lambda a: torch.tensor(np.asarray(a),dtype=torch.float32)
n=0
for t in range(3000):
    N=np.random.randint(1,5)
    st=pc.random_clifford_state(N); tst=ts.StabilizerState(T(st.gs),ps=T(st.ps))
    s2=pc.random_clifford_state(N,np.random.randint(0,N+1)); ts2=ts.StabilizerState(T(s2.gs),ps=T(s2.ps)).set_r(s2.r)
    try:
        r=float(tst.expect(ts2)); e=st.expect(s2)
    except Exception as ex:
        flag(('exc',type(ex).__name__,str(ex)[:60])); continue
    if abs(r-e)>1e-9:
        flag(('overlap',s2.r)); n+=1
        if n<3: print(N,s2.r,r,e); print(st.gs,st.ps); print(s2.gs[s2.r:N],s2.ps[s2.r:N])
print(kinds)
