import shim, numpy as np, itertools, torch
import pyclifford as pc, torchclifford as tc
np.random.seed(0); torch.manual_seed(0)
n=20000; k=sum(pc.random_clifford_state(3).entropy([0]) for _ in range(n)); print('np frac entangled',k/n)
n=3000; k=sum(int(tc.random_clifford_state(3).entropy([0])) for _ in range(n)); print('torch(fixed) frac entangled',k/n)
# count symplectic 4x4
J=np.zeros((4,4),int); J[0,1]=J[1,0]=J[2,3]=J[3,2]=1
cnt=0
for bits in range(1<<16):
    M=np.array([(bits>>i)&1 for i in range(16)]).reshape(4,4)
    # rows r_a; form omega(r_a,r_b) = sum_k (z_a x_b - x_a z_b)
    X=M[:,0::2]; Z=M[:,1::2]
    A=(Z@X.T - X@Z.T)%2
    if (A==J).all(): cnt+=1
print('Sp(4,2) =',cnt)
import collections
c=collections.Counter()
for _ in range(20000):
    m=tc.random_clifford_map(2); c[m.gs.numpy().astype(int).tobytes()]+=1
print('torch(fixed) N=2 classes',len(c))
