import shim, numpy as np, itertools, time
import pyclifford as pc
from pyclifford import utils
from numba import njit
@njit
def seed(s): np.random.seed(s)
def key(s): return (s.gs.tobytes(), (s.ps%4).tobytes(), s.r)
def run(N):
    gens=[pc.Pauli(np.array(g),p) for g in itertools.product((0,1),repeat=2*N) if any(g) for p in (0,2)]
    obs=[pc.PauliList(np.array([g]),np.array([0])) for g in itertools.product((0,1),repeat=2*N) if any(g)]
    start=[pc.zero_state(N),pc.maximally_mixed_state(N)]
    seen={key(s):s for s in start}; frontier=list(seen.values()); t0=time.time(); nops=0
    while frontier:
        new=[]
        for s in frontier:
            for g in gens:
                c=s.copy(); c.rotate_by(g); nops+=1
                k=key(c)
                if k not in seen: seen[k]=c; new.append(c)
            for o in obs:
                outs=set()
                for tr in range(12):
                    c=s.copy(); seed(tr); out,lp=c.measure(o); nops+=1
                    outs.add(int(out[0]))
                    k=key(c)
                    if k not in seen: seen[k]=c; new.append(c)
                    if lp==0 or len(outs)==2: break
        frontier=new
        print(N,len(seen),len(frontier),nops,round(time.time()-t0,1),flush=True)
    from collections import Counter
    print(Counter(s.r for s in seen.values()))
run(1); run(2)
