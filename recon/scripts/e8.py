import shim, orac, numpy as np, itertools, traceback
import pyclifford as pc
from pyclifford import utils
from orac import dense, rho_of
np.random.seed(6)
kinds={}
def flag(k): kinds[k]=kinds.get(k,0)+1
# C15 polynomial algebra
def rand_poly(N,L=None):
    L=np.random.randint(1,5) if L is None else L
    return pc.PauliPolynomial(np.random.randint(0,2,(L,2*N)),np.random.randint(0,4,L)).set_cs(np.random.randn(L)+1j*np.random.randn(L))
def D(o):
    if isinstance(o,pc.PauliPolynomial): 
        N=o.N; return sum((o.cs[k]*dense(o.gs[k],o.ps[k]) for k in range(o.L)), np.zeros((2**N,2**N),complex))
    if isinstance(o,pc.PauliMonomial): return o.c*dense(o.g,o.p)
    if isinstance(o,pc.Pauli): return dense(o.g,o.p)
    raise TypeError
for t in range(500):
    N=np.random.randint(1,4)
    a=rand_poly(N); b=rand_poly(N)
    P=pc.Pauli(np.random.randint(0,2,2*N),np.random.randint(0,4))
    Q=pc.Pauli(np.random.randint(0,2,2*N),np.random.randint(0,4))
    M=(0.3-0.7j)*P
    c=1.5-0.5j
    tests=[
     ('poly+poly',lambda:(a+b),D(a)+D(b)),('poly-poly',lambda:(a-b),D(a)-D(b)),('poly@poly',lambda:(a@b),D(a)@D(b)),
     ('c*poly',lambda:(c*a),c*D(a)),('poly/c',lambda:(a/c),D(a)/c),('-poly',lambda:(-a),-D(a)),
     ('P+Q',lambda:(P+Q),D(P)+D(Q)),('P-Q',lambda:(P-Q),D(P)-D(Q)),('P+poly',lambda:(P+a),D(P)+D(a)),('poly+P',lambda:(a+P),D(P)+D(a)),
     ('c*P',lambda:(c*P),c*D(P)),('P/c',lambda:(P/c),D(P)/c),('M+P',lambda:(M+P),D(M)+D(P)),('M@P',lambda:(M@P),D(M)@D(P)),('P@M',lambda:(P@M),D(P)@D(M)),
     ('P@poly',lambda:(P@a),D(P)@D(a)),('poly@P',lambda:(a@P),D(a)@D(P)),('M@poly',lambda:(M@a),D(M)@D(a)),('poly@M',lambda:(a@M),D(a)@D(M)),
     ('poly+num',lambda:(a+2.5),D(a)+2.5*np.eye(2**N)),('num+poly',lambda:(2.5+a),D(a)+2.5*np.eye(2**N)),('P+num',lambda:(P+2.5),D(P)+2.5*np.eye(2**N)),('num+P',lambda:(2.5+P),D(P)+2.5*np.eye(2**N)),
     ('M+num',lambda:(M+1j),D(M)+1j*np.eye(2**N)),('-M',lambda:(-M),-D(M)),('c*M',lambda:(c*M),c*D(M)),('M/c',lambda:(M/c),D(M)/c),('M-poly',lambda:(M-a),D(M)-D(a)),
     ('reduce',lambda:(a@b).reduce(),D(a)@D(b)),
     ('1j*P',lambda:(1j*P),1j*D(P)),('-1*P',lambda:(-1*P),-D(P)),('-P',lambda:(-P),-D(P)),
     ('list+poly',lambda:(a+pc.PauliList(b.gs,b.ps)),D(a)+sum(dense(b.gs[k],b.ps[k]) for k in range(b.L))),
    ]
    for name,f,exp in tests:
        try:
            r=f()
            if not np.allclose(D(r),exp): flag(('val',name))
            q=r.to_qutip().full()
            if not np.allclose(q,exp): flag(('qutip',name))
        except Exception as e:
            flag(('exc',name,type(e).__name__,str(e)[:50]))
    # traces
    for name,o in (('poly',a),('P',P),('M',M),('prod',a@b)):
        try:
            tr=o.trace()
            if not np.isclose(tr,np.trace(D(o))): flag(('trace',name))
        except Exception as e: flag(('exc-trace',name,type(e).__name__))
    # list trace
    lst=pc.PauliList(a.gs,a.ps)
    tr=lst.trace()
    for k in range(a.L):
        if not np.isclose(tr[k],np.trace(dense(a.gs[k],a.ps[k]))): flag(('trace','list')); break
    # linearity of rotation/transform
    g=pc.Pauli(np.random.randint(0,2,2*N),2*np.random.randint(0,2))
    from scipy.linalg import expm
    U=expm(1j*np.pi/4*D(g))
    a2=a.copy(); a2.rotate_by(g)
    if not np.allclose(D(a2),U.conj().T@D(a)@U): flag('rot-lin')
    if not np.allclose(a2.cs,a.cs): flag('cs-changed')
print(kinds)
