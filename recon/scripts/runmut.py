import sys, os, shutil, subprocess, concurrent.futures as cf
sys.path.insert(0,'/tmp/scratch'); from mutants import M
def run(m):
    name,file,old,new,script=m
    d='/tmp/scratch/mut_'+name
    shutil.rmtree(d,ignore_errors=True); shutil.copytree('/tmp/scratch/fixed',d)
    p=os.path.join(d,file); s=open(p).read()
    if s.count(old)<1: shutil.rmtree(d); return name,'PATTERN-NOT-FOUND','',''
    open(p,'w').write(s.replace(old,new,1))
    t=subprocess.run(['/venv/bin/python','-m','pytest','-q','-p','no:cacheprovider','pyclifford/tests','-q'],cwd=d,capture_output=True,text=True)
    fails=[l.split('::')[1].split(' ')[0] for l in t.stdout.split('\n') if l.startswith('FAILED') and 'test_overlap' not in l]
    env=dict(os.environ,PYTHONPATH='/tmp/scratch:'+d)
    try:
        o=subprocess.run(['/venv/bin/python',script],cwd='/tmp/scratch',capture_output=True,text=True,env=env,timeout=1500)
        lines=[l for l in (o.stdout+o.stderr).split('\n') if l.strip() and 'Warn' not in l and 'warn' not in l]
        out=' | '.join(lines[-3:])[:260]
    except subprocess.TimeoutExpired: out='TIMEOUT'
    shutil.rmtree(d,ignore_errors=True)
    return name,','.join(fails) or 'tests-pass',script,out
with cf.ThreadPoolExecutor(14) as ex:
    for r in ex.map(run,M): print('MUT %-28s [%s] %s -> %s'%r,flush=True)
