import os; os.environ['NUMBA_DISABLE_JIT']='1'
import shim, sys, numpy as np, time, collections
import pyclifford as pc
from pyclifford import utils
mon=sys.monitoring; TID=3
mon.use_tool_id(TID,'vp')
hits=collections.Counter()
target=utils.__file__
def on_line(code,line):
    if code.co_filename!=target: return mon.DISABLE
    hits[(code.co_name,line)]+=1
    return mon.DISABLE
mon.register_callback(TID,mon.events.LINE,on_line)
mon.set_events(TID,mon.events.LINE)
t=time.time()
np.random.seed(0)
for i in range(300):
    N=np.random.randint(1,5); s=pc.random_clifford_state(N,np.random.randint(0,N+1))
    o=pc.random_clifford_state(N); s.measure(pc.PauliList(o.gs[:2].copy(),o.ps[:2].copy()))
print(time.time()-t)
src=open(target).read().split('\n')
fn=[k for k in hits if k[0]=='stabilizer_measure']
import inspect
lines,start=inspect.getsourcelines(utils.stabilizer_measure)
ex=[start+i for i,l in enumerate(lines) if l.strip() and not l.strip().startswith(('#',"'''"))]
cov={l for (f,l) in fn}
print('measure lines hit',len(cov),'missed',[ (l,src[l-1].strip()[:50]) for l in ex if l not in cov][:30])
