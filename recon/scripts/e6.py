import shim, orac, numpy as np, itertools
import pyclifford as pc
from pyclifford import utils
from orac import dense, rho_of
np.random.seed(4)
def ket(bits):
    v=np.zeros(2**len(bits)); v[int(''.join(map(str,bits)),2)]=1; return np.outer(v,v)
kinds={}
def flag(k): kinds[k]=kinds.get(k,0)+1
for N in range(1,5):
    if not np.allclose(rho_of(pc.zero_state(N)),ket([0]*N)): flag('zero')
    if not np.allclose(rho_of(pc.one_state(N)),ket([1]*N)): flag('one')
    if not np.allclose(rho_of(pc.maximally_mixed_state(N)),np.eye(2**N)/2**N): flag('mm')
    g=np.zeros(2**N); g[0]=g[-1]=1/np.sqrt(2)
    if not np.allclose(rho_of(pc.ghz_state(N)),np.outer(g,g)): flag('ghz%d'%N)
    for t in range(20):
        s=pc.random_bit_state(N)
        rho=rho_of(s); d=np.diag(rho).real
        if not (np.allclose(rho,np.diag(d)) and np.isclose(d.max(),1)): flag('rbs')
        s=pc.random_pauli_state(N)
        # product state: purity of each single-qubit marginal =1 -> entropy 0
        if any(s.entropy([q])!=0 for q in range(N)): flag('rps')
    # to_qutip
    for t in range(20):
        r=np.random.randint(0,N+1); s=pc.random_clifford_state(N,r)
        if not np.allclose(s.to_qutip().full(), rho_of(s)): flag('qutip')
        # map->state->map
        m=pc.random_clifford_map(N)
        st=m.to_state(); m2=st.to_map()
        if not ((m2.gs==m.gs).all() and (m2.ps==m.ps).all()): flag('roundtrip')
        z=pc.zero_state(N); z.transform_by(m)
        if not np.allclose(rho_of(z),rho_of(st)): flag('tostate')
        # stabilizer_state from signed commuting list
        L=np.random.randint(1,N+1)
        o=pc.random_clifford_state(N)
        idx=np.random.permutation(N)[:L]
        lst=pc.PauliList(o.gs[idx].copy(), 2*np.random.randint(0,2,L))
        try:
            s=pc.stabilizer_state(lst)
        except Exception as e:
            flag('ss-exc %s'%type(e).__name__); continue
        D=2**N; P=np.eye(D,dtype=complex)
        for k in range(L): P=P@(np.eye(D)+dense(lst.gs[k],lst.ps[k]))/2
        if not (s.r==N-L and np.allclose(rho_of(s),P/np.trace(P))): flag('ss N=%d L=%d'%(N,L))
    # anticommuting input
    if N>=1:
        try: pc.stabilizer_state(pc.paulis('X'+'I'*(N-1),'Z'+'I'*(N-1))); flag('no-raise')
        except ValueError: pass
# string inputs
s=pc.stabilizer_state('-ZZ','XX'); print(s, s.r)
s=pc.stabilizer_state('-ZZI'); print(s, s.r, rho_of(s).trace())
print(kinds)
