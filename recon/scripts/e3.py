import shim, orac, numpy as np, itertools
import pyclifford as pc
from pyclifford import utils
from orac import dense, rho_of
np.random.seed(1)
def vn(rho):
    w=np.linalg.eigvalsh(rho); w=w[w>1e-12]; return float(-(w*np.log2(w)).sum())
def ptrace(rho,N,keep):
    rho=rho.reshape([2]*(2*N))
    cur=N
    for q in sorted(set(range(N))-set(keep),reverse=True):
        rho=np.trace(rho,axis1=q,axis2=q+cur); cur-=1
    d=2**len(keep); return rho.reshape(d,d)
bad7=bad8=0;c7=c8=0;badprob=0
for trial in range(300):
    N=np.random.randint(1,5); r=np.random.randint(0,N+1)
    st=pc.random_clifford_state(N,r)
    rho=rho_of(st)
    assert abs(np.trace(rho)-1)<1e-9
    # expect list
    L=6
    gs=np.random.randint(0,2,(L,2*N)); ps=2*np.random.randint(0,2,L)
    xs=st.expect(pc.PauliList(gs,ps))
    for k in range(L):
        t=np.trace(rho@dense(gs[k],ps[k])).real
        c7+=1
        if abs(t-xs[k])>1e-9: bad7+=1
    # polynomial with phases
    ps2=np.random.randint(0,4,L); cs=np.random.randn(L)+1j*np.random.randn(L)
    poly=pc.PauliPolynomial(gs.copy(),ps2).set_cs(cs)
    v=st.expect(poly)
    t=sum(cs[k]*np.trace(rho@dense(gs[k],ps2[k])) for k in range(L))
    c7+=1
    if abs(t-v)>1e-9: bad7+=1; print('poly',t,v)
    # get_prob (pure only)
    if r==0:
        tot=0
        for b in itertools.product((0,1),repeat=N):
            pr=st.get_prob(np.array(b))
            idx=int(''.join(map(str,b)),2)
            if abs(pr-rho[idx,idx].real)>1e-9: badprob+=1; print('prob',N,b,pr,rho[idx,idx].real)
            tot+=pr
    # overlap with other state
    if r==0:
        r2=np.random.randint(0,N+1); s2=pc.random_clifford_state(N,r2)
        ov=st.expect(s2); t=np.trace(rho@rho_of(s2)).real
        c7+=1
        if abs(ov-t)>1e-9: bad7+=1; print('ov',N,r2,ov,t)
    # entropy
    for sub in itertools.chain.from_iterable(itertools.combinations(range(N),k) for k in range(0,N+1)):
        e=st.entropy(list(sub))
        t=vn(ptrace(rho,N,list(sub))) if len(sub)>0 else 0
        c8+=1
        if abs(e-t)>1e-6: bad8+=1; print('ent',N,r,sub,e,t)
print('C07',c7,bad7,'prob',badprob,'C08',c8,bad8)
