import shim, orac, numpy as np, itertools
import pyclifford as pc
from orac import dense, rho_of
np.random.seed(8)
def D(o):
    N=o.N; return sum((o.cs[k]*dense(o.gs[k],o.ps[k]) for k in range(o.L)), np.zeros((2**N,2**N),complex))
n=0
for t in range(400):
    N=np.random.randint(1,5)
    s=pc.random_clifford_state(N)
    L=np.random.randint(1,6)
    terms=s.sample(L)
    H=pc.PauliPolynomial(terms.gs,terms.ps).set_cs((np.random.randn(L)).astype(complex)).reduce()
    if len(H)==0: continue
    heff,circ=pc.SBRG(H)
    Hf=circ.forward(H.copy())
    if not np.allclose(D(Hf),D(heff)):
        n+=1
        if n<4:
            print('H=',H); print('heff=',heff); print('fwd=',Hf.reduce()); print(circ)
