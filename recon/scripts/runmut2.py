import sys, os, shutil, subprocess
sys.path.insert(0,'/tmp/scratch'); from mutants import M
want=sys.argv[1:]
for m in M:
    name,file,old,new,script=m
    if name not in want: continue
    d='/tmp/scratch/mut_'+name
    shutil.rmtree(d,ignore_errors=True); shutil.copytree('/tmp/scratch/fixed',d)
    p=os.path.join(d,file); s=open(p).read(); open(p,'w').write(s.replace(old,new,1))
    env=dict(os.environ,PYTHONPATH='/tmp/scratch:'+d)
    o=subprocess.run(['/venv/bin/python',script],cwd='/tmp/scratch',capture_output=True,text=True,env=env)
    lines=[l for l in (o.stdout+o.stderr).split('\n') if l.strip() and 'arn' not in l]
    print('==',name); print('\n'.join(l[:200] for l in lines if l.startswith('{') or 'distinct' in l or 'closed' in l or 'dups' in l or l.startswith(('H ','S ','CNOT'))))
    shutil.rmtree(d,ignore_errors=True)
