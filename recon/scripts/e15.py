import shim, orac, numpy as np, itertools, collections
import pyclifford as pc
from pyclifford import utils
from orac import dense, rho_of
np.random.seed(12)
kinds={}
def flag(k): kinds[k]=kinds.get(k,0)+1
def Zop(N,q):
    g=np.zeros(2*N,int); g[2*q+1]=1; return dense(g)
def heis(rho,N,f):
    D=2**N; new=np.zeros((D,D),complex)
    for gg in itertools.product((0,1),repeat=2*N):
        P=pc.Pauli(np.array(gg),0); c=np.trace(rho@dense(P.g,0))/D
        if abs(c)>1e-12:
            f(P); new+=c*dense(P.g,P.p)
    return new
for t in range(500):
    N=np.random.randint(1,4)
    circ=pc.Circuit(N); prog=[]
    for k in range(np.random.randint(1,6)):
        if np.random.rand()<0.5:
            n=np.random.randint(1,min(N,2)+1); qs=tuple(sorted(np.random.choice(N,n,replace=False).tolist()))
            g=pc.CliffordGate(*qs); g.set_forward_map(pc.random_clifford_map(n)); circ.take(g); prog.append(('g',g))
        else:
            n=np.random.randint(1,N+1); qs=tuple(np.random.choice(N,n,replace=False).tolist())
            circ.measure(*qs); prog.append(('m',qs))
    if circ.unitary: continue
    nm=circ.num_of_measures
    rec=[int(x) for x in np.random.choice([1,-1],nm)]
    st=pc.random_clifford_state(N); rho=rho_of(st)
    # expected: traverse prog in reverse: measurement -> project onto recorded outcomes (qubits in reverse), gate -> backward
    ptr=nm; ok=True; rho_d=rho
    for kind,x in reversed(prog):
        if kind=='g': rho_d=heis(rho_d,N,x.backward)
        else:
            for q in reversed(x):
                ptr-=1; o=rec[ptr]
                Pj=(np.eye(2**N)+o*Zop(N,q))/2; pr=np.trace(Pj@rho_d).real
                if pr<1e-12: ok=False;break
                rho_d=Pj@rho_d@Pj/pr
            if not ok: break
    try:
        out=circ.backward(st,measure_result=rec)
        if not ok: flag('no-raise')
        elif not np.allclose(rho_of(out),rho_d): flag('bwd-state')
    except ValueError as e:
        if ok: flag(('raise',str(e)[:40]))
print(kinds)
