import shim, sys; sys.path.insert(0,'/tmp/scratch/deps')
import icontract, numpy as np
import pyclifford as pc
from pyclifford import utils, stabilizer
class Broken(Exception): pass
calls=[0]
def tableau_ok(self):
    calls[0]+=1
    N=self.N
    A=utils.acq_mat(np.asarray(self.gs).astype(np.int_))
    J=np.zeros((2*N,2*N),int)
    for i in range(N): J[i,N+i]=J[N+i,i]=1
    return bool((A==J).all())
S=icontract.invariant(tableau_ok,error=Broken)(stabilizer.StabilizerState)
print(S is stabilizer.StabilizerState)
s=pc.random_clifford_state(3,1)
s.rotate_by(pc.pauli('-XYZ')); s.measure(pc.paulis('ZII')); s.copy(); s.expect(pc.paulis('ZZI'))
print('invariant evaluations',calls[0])
s.gs[0]=s.gs[1]
try: s.entropy([0]); print('no fire')
except Broken as e: print('fired')
