import shim, orac, numpy as np, itertools
import pyclifford as pc
from pyclifford import utils
from orac import dense, rho_of
np.random.seed(21)
kinds={}
def flag(k): kinds[k]=kinds.get(k,0)+1
def embed_g(g,qs,N):
    out=np.zeros(2*N,int)
    for k,q in enumerate(qs): out[2*q]=g[2*k]; out[2*q+1]=g[2*k+1]
    return out
def Dpoly(o): return sum((o.cs[k]*dense(o.gs[k],o.ps[k]) for k in range(o.L)))
for t in range(1500):
    N=np.random.randint(1,5)
    n=np.random.randint(1,N+1); qs=sorted(np.random.choice(N,n,replace=False).tolist())
    m=utils.mask(qs,N)
    g=np.random.randint(0,2,2*n); pg=2*np.random.randint(0,2)
    G=pc.Pauli(g,pg); Gf=embed_g(g,qs,N)
    U=(np.eye(2**N)+1j*dense(Gf,pg))/np.sqrt(2)
    # Pauli
    P=pc.Pauli(np.random.randint(0,2,2*N),np.random.randint(0,4)); P0=P.copy()
    P.rotate_by(G,mask=m)
    if not np.allclose(dense(P.g,P.p),U.conj().T@dense(P0.g,P0.p)@U): flag('rot-mask-pauli')
    # polynomial
    poly=pc.PauliPolynomial(np.random.randint(0,2,(3,2*N)),np.random.randint(0,4,3)).set_cs(np.random.randn(3)+1j*np.random.randn(3)); p0=poly.copy()
    poly.rotate_by(G,mask=m)
    if not np.allclose(Dpoly(poly),U.conj().T@Dpoly(p0)@U): flag('rot-mask-poly')
    # state
    st=pc.random_clifford_state(N,np.random.randint(0,N+1)); r0=rho_of(st)
    st.rotate_by(G,mask=m)
    if not np.allclose(rho_of(st),U.conj().T@r0@U): flag('rot-mask-state')
    # map transform with mask == embed
    cm=pc.random_clifford_map(n)
    big=pc.identity_map(N).embed(cm,m)
    L=pc.PauliList(np.random.randint(0,2,(4,2*N)),np.random.randint(0,4,4)); L2=L.copy()
    L.transform_by(cm,mask=m); L2.transform_by(big)
    if not ((L.gs==L2.gs).all() and ((L.ps-L2.ps)%4==0).all()): flag('mask-vs-embed')
    # rotation gate via clifford_rotation_gate on full-size generator with identities
    gen=pc.Pauli(Gf,pg)
    if Gf.any():
        gate=pc.clifford_rotation_gate(gen)
        Q=P0.copy(); gate.forward(Q)
        if not np.allclose(dense(Q.g,Q.p),U.conj().T@dense(P0.g,P0.p)@U): flag('rotgate')
        gate.backward(Q)
        if not ((Q.g==P0.g).all() and Q.p%4==P0.p%4): flag('rotgate-bwd')
        gate2=pc.clifford_rotation_gate(gen).compile()
        Q=pc.PauliList(P0.g[None,:].copy(),np.array([P0.p]))
        # compiled map applied through mask
        Q.transform_by(gate2.forward_map,mask=utils.mask(list(gate2.qubits),N))
        if not np.allclose(dense(Q.gs[0],Q.ps[0]),U.conj().T@dense(P0.g,P0.p)@U): flag('rotgate-compiled')
    # rotation map equals rotation
    rm=pc.clifford_rotation_map(pc.Pauli(Gf,pg))
    A=P0.copy(); A.transform_by(rm); B=P0.copy(); B.rotate_by(pc.Pauli(Gf,pg))
    if not ((A.g==B.g).all() and A.p%4==B.p%4): flag('rotmap')
print(kinds)
# paulis formats
print(repr(pc.paulis('XX','-YZ')), '|', repr(pc.paulis(['XX','-YZ'])), '|', repr(pc.paulis(np.array([[1,1],[2,3]]))), '|', repr(pc.paulis({0:1},{1:3},N=2)), '|', repr(pc.paulis(pc.pauli('iXX'),'ZZ')))
print(repr(pc.stabilizer_state('-ZZ','XX')), repr(pc.stabilizer_state(['-ZZ','XX'])), repr(pc.stabilizer_state(np.array([[3,3],[1,1]]))))
print(pc.zero_state(2).expect(pc.pauli('-ZZ')), pc.zero_state(2).expect(2.5*pc.pauli('ZI')), pc.zero_state(2).expect(pc.pauli('iZZ')))
