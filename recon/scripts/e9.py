import shim, orac, numpy as np, itertools, traceback, collections
import pyclifford as pc
from pyclifford import utils
from orac import dense, rho_of
np.random.seed(7)
kinds={}
def flag(k): kinds[k]=kinds.get(k,0)+1
# C20 parse/print
for N in (1,2,3):
    for g in itertools.product(range(4),repeat=N):
        s=''.join('IXYZ'[k] for k in g)
        for pre,p in (('',0),('+',0),('-',2),('i',1),('-i',3),('+i',1)):
            P=pc.pauli(pre+s)
            ga=np.array([[0,0],[1,0],[1,1],[0,1]])[list(g)].reshape(-1)
            if not ((P.g==ga).all() and P.p==p and P.N==N): flag(('str',pre))
            # repr roundtrip
            Q=pc.pauli(repr(P).strip())
            if not ((Q.g==P.g).all() and Q.p==P.p): flag(('repr',pre,repr(P)))
            # token roundtrip
            T=pc.pauli(P.tokenize()[0])
            if not ((T.g==P.g).all() and T.p==P.p): flag(('tok',p))
            # array / dict
            A=pc.pauli(np.array(g)); Dd=pc.pauli({i:k for i,k in enumerate(g)},N)
            if not ((A.g==ga).all() and (Dd.g==ga).all()): flag('arr/dict')
            Dl=pc.pauli(list(g)+[{0:4,2:5,1:6,3:7}[p]])
            if not ((Dl.g==ga).all() and Dl.p==p): flag(('codes',p))
print(kinds)
# list ops
L=pc.paulis('XX','-YZ','iZI','-iII')
print(repr(L), L.N, L.L, len(L), L.weight())
print(repr(pc.paulis(repr(L).split('\n'))))
print(repr(L[1]), repr(L[1:3]), repr(L[np.array([True,False,True,False])]), repr(L[np.array([3,0])]))
print(repr(-L), '|', repr(1j*L), '|', repr(-1j*L))
print(repr(pc.paulis(L.tokenize())))
