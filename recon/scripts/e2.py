import shim, orac, numpy as np, itertools
import pyclifford as pc
from pyclifford import utils
from orac import dense
def img_dense(m, g, p):
    N=len(g)//2; D=2**N
    out=np.eye(D,dtype=complex)*(1j**p)
    for i in range(N):
        x,z=g[2*i],g[2*i+1]
        if x and z: out=out*1j
        if x: out=out@dense(m.gs[2*i],m.ps[2*i])
        if z: out=out@dense(m.gs[2*i+1],m.ps[2*i+1])
    return out
def key(m): return (m.gs.astype(int).tobytes(), (m.ps%4).astype(int).tobytes())
def closure(N, gens):
    idm=pc.identity_map(N); seen={key(idm):idm}; frontier=[idm]
    while frontier:
        new=[]
        for m in frontier:
            for g in gens:
                c=m.compose(g)
                k=key(c)
                if k not in seen: seen[k]=c; new.append(c)
        frontier=new
    return list(seen.values())
for N in (1,2):
    gens=[]
    for g in itertools.product((0,1),repeat=2*N):
        if any(g): gens.append(pc.clifford_rotation_map(pc.Pauli(np.array(g),0)))
    maps=closure(N,gens)
    print(N,len(maps))
    bad=0;cnt=0
    allp=[(np.array(h),ph) for h in itertools.product((0,1),repeat=2*N) for ph in range(4)]
    for m in maps[:: (1 if N==1 else 37)]:
        for h,ph in allp:
            P=pc.Pauli(h.copy(),ph); P.transform_by(m)
            cnt+=1
            if not np.allclose(dense(P.g,P.p), img_dense(m,h,ph)): bad+=1
        inv=m.inverse()
        a=m.compose(inv); b=inv.compose(m)
        idk=key(pc.identity_map(N))
        if key(a)!=idk or key(b)!=idk: bad+=1
    print('C03/4',cnt,bad)
