import shim, orac, numpy as np, itertools, collections
import pyclifford as pc
from pyclifford import utils
from orac import dense, rho_of
np.random.seed(11)
kinds={}
def flag(k): kinds[k]=kinds.get(k,0)+1
def Zop(N,q,sign=1):
    g=np.zeros(2*N,int); g[2*q+1]=1; return sign*dense(g)
# C14 : forward trajectories
for t in range(600):
    N=np.random.randint(1,5); r=np.random.randint(0,N+1)
    st=pc.random_clifford_state(N,r)
    circ=pc.Circuit(N)
    prog=[]
    for k in range(np.random.randint(1,6)):
        if np.random.rand()<0.5:
            n=np.random.randint(1,min(N,2)+1); qs=tuple(sorted(np.random.choice(N,n,replace=False).tolist()))
            g=pc.CliffordGate(*qs); g.set_forward_map(pc.random_clifford_map(n)); circ.take(g); prog.append(('g',g))
        else:
            n=np.random.randint(1,N+1); qs=tuple(np.random.choice(N,n,replace=False).tolist())
            circ.measure(*qs); prog.append(('m',qs))
    rho=rho_of(st); s2=st.copy()
    out=circ.forward(st)
    res=list(circ.measure_result); lp=circ.log2prob
    # replay with dense
    ptr=0; logp=0; ok=True
    for kind,x in prog:
        if kind=='g':
            tmp=s2.copy(); # apply gate to dense via state? use library for unitary on a probe: compute rho via conj of stabilizers - simpler: apply gate to a StabilizerState built from rho? skip: use gate on s2 and track projections in dense separately
        else:
            pass
    # Simplified: compare to sequential direct application with forced outcomes
    s3=s2
    ptr=0; logp=0.0
    rho_d=rho_of(s2)
    for kind,x in prog:
        if kind=='g':
            # unitary acts: compute dense via library on s3 copy is circular; instead get U-action by transforming basis Paulis
            # use heisenberg: rho' = sum_P tr(rho P) img(P) /2^N  
            Nn=N; D=2**N; new=np.zeros((D,D),complex)
            for gg in itertools.product((0,1),repeat=2*N):
                P=pc.Pauli(np.array(gg),0); c=np.trace(rho_d@dense(P.g,0))/D
                if abs(c)>1e-12:
                    x.forward(P); new+=c*dense(P.g,P.p)
            rho_d=new
        else:
            for q in x:
                o=res[ptr]; ptr+=1
                Pj=(np.eye(2**N)+o*Zop(N,q))/2
                pr=np.trace(Pj@rho_d).real
                if pr<1e-12: ok=False; break
                logp+=np.log2(pr); rho_d=Pj@rho_d@Pj/pr
            if not ok: break
    if not ok: flag(('impossible',r>0)); continue
    if ptr!=len(res): flag('reslen')
    if abs(logp-lp)>1e-9: flag(('logp',r>0))
    if not np.allclose(rho_d,rho_of(out)): flag(('state',r>0))
print(kinds)
# gates never move in front of measurement
c=pc.Circuit(3); c.take(pc.H(0)); c.measure(1); c.take(pc.X(2)); c.take(pc.H(1)); print(c)
# postselect
for t in range(500):
    N=np.random.randint(1,4); st=pc.random_clifford_state(N); rho=rho_of(st)
    P=pc.Pauli(np.random.randint(0,2,2*N),2*np.random.randint(0,2))
    if not P.g.any(): continue
    res=np.random.randint(0,2)
    Pj=(np.eye(2**N)+(-1)**res*dense(P.g,P.p))/2
    pr=np.trace(Pj@rho).real
    before=st.copy()
    got=st.postselect(P,res)
    if abs(got-pr)>1e-9: flag('ps-prob')
    if pr>1e-9:
        if not np.allclose(rho_of(st),Pj@rho@Pj/pr): flag('ps-state')
    else:
        if not np.allclose(rho_of(st),rho): flag('ps-state0')
print(kinds)
