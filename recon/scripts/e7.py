import shim, orac, numpy as np, itertools, traceback
import pyclifford as pc
from pyclifford import utils
from orac import dense, rho_of
np.random.seed(5)
kinds={}
def flag(k):
    kinds[k]=kinds.get(k,0)+1
def rand_gate(N):
    n=np.random.randint(1,min(N,3)+1)
    qs=tuple(sorted(np.random.choice(N,n,replace=False).tolist()))
    kind=np.random.randint(0,5)
    if kind==0:
        g=np.random.randint(0,2,2*n)
        while not g.reshape(n,2).any(axis=1).all(): g=np.random.randint(0,2,2*n)   # full support
        gate=pc.CliffordGate(*qs); gate.set_generator(pc.Pauli(g,2*np.random.randint(0,2)))
    elif kind==1:
        gate=pc.CliffordGate(*qs); gate.set_forward_map(pc.random_clifford_map(n))
    elif kind==2:
        gate=pc.CliffordGate(*qs); gate.set_backward_map(pc.random_clifford_map(n))
    elif kind==3:
        q=np.random.randint(N); f=[pc.H,pc.S,pc.X,pc.Y,pc.Z][np.random.randint(5)]; gate=f(q)
    else:
        if N>=2:
            a,b=np.random.choice(N,2,replace=False).tolist(); gate=pc.CNOT(a,b)
        else: gate=pc.C(np.random.randint(24),0)
    return gate
def rand_obj(N):
    k=np.random.randint(3)
    if k==0: return pc.PauliList(np.random.randint(0,2,(4,2*N)),np.random.randint(0,4,4))
    if k==1: return pc.random_clifford_state(N,np.random.randint(0,N+1))
    return pc.Pauli(np.random.randint(0,2,2*N),np.random.randint(0,4))
def same(a,b):
    if isinstance(a,pc.Pauli): return (a.g==b.g).all() and a.p%4==b.p%4
    if isinstance(a,pc.StabilizerState): return np.allclose(rho_of(a),rho_of(b)) and a.r==b.r and (a.gs==b.gs).all()
    return (a.gs==b.gs).all() and ((a.ps-b.ps)%4==0).all()
for trial in range(600):
    N=np.random.randint(1,6)
    ngate=np.random.randint(1,9)
    gates=[rand_gate(N) for _ in range(ngate)]
    for cls in (pc.circuit.CliffordCircuit, pc.Circuit):
        circ=cls(N)
        for g in gates: circ.take(g.copy())
        obj=rand_obj(N)
        ref=obj.copy()
        for g in gates: g.copy().forward(ref)
        try:
            o1=circ.forward(obj.copy())
            if not same(o1,ref): flag(('fwd',cls.__name__,type(obj).__name__))
            # backward
            o2=circ.backward(o1.copy())
            if not same(o2,obj): flag(('bwd',cls.__name__,type(obj).__name__))
            o3=circ.forward(circ.backward(obj.copy()))
            if not same(o3,obj): flag(('fb',cls.__name__,type(obj).__name__))
            if cls is pc.circuit.CliffordCircuit:
                c2=circ.copy()
                if not same(c2.forward(obj.copy()),ref): flag(('copy',))
            c3=cls(N)
            for g in gates: c3.take(g.copy())
            c3.compile()
            if not same(c3.forward(obj.copy()),ref): flag(('compiled-fwd',cls.__name__,type(obj).__name__))
            if not same(c3.backward(c3.forward(obj.copy())),obj): flag(('compiled-bwd',cls.__name__))
            # layer compiled only
            c4=cls(N)
            for g in gates: c4.take(g.copy())
            for l in c4.layers_forward(): l.compile(N)
            if not same(c4.forward(obj.copy()),ref): flag(('layercompiled-fwd',cls.__name__))
            if not same(c4.backward(c4.forward(obj.copy())),obj): flag(('layercompiled-bwd',cls.__name__))
        except Exception as e:
            flag(('exc',cls.__name__,type(e).__name__,str(e)[:60]))
print(kinds)
