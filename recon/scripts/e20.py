import shim, orac, orac2, numpy as np, itertools
import pyclifford as pc
from orac import dense, rho_of
np.random.seed(3)
bad=0
for t in range(300):
    N=np.random.randint(1,4); m=pc.random_clifford_map(N)
    V=orac2.unitary_from_map(m.gs,m.ps,dense)
    if not np.allclose(V.conj().T@V,np.eye(2**N)): bad+=1; continue
    for g in itertools.product((0,1),repeat=2*N):
        for p in range(4):
            P=pc.Pauli(np.array(g),p); P.transform_by(m)
            if not np.allclose(V@dense(g,p)@V.conj().T, dense(P.g,P.p)): bad+=1
print('unitary bad',bad)
bad=0
for t in range(3000):
    N=np.random.randint(1,10)
    g1=np.random.randint(0,2,2*N); g2=np.random.randint(0,2,2*N); p1,p2=np.random.randint(0,4,2)
    g,p=orac2.mul(g1,p1,g2,p2); c=pc.Pauli(g1,p1)@pc.Pauli(g2,p2)
    if not ((g==c.g).all() and p==c.p%4): bad+=1
    if orac2.anti(g1,g2)!=pc.utils.acq(g1,g2): bad+=1
print('table bad',bad)
def vn(rho):
    w=np.linalg.eigvalsh(rho); w=w[w>1e-12]; return float(-(w*np.log2(w)).sum())
def ptrace(rho,N,keep):
    rho=rho.reshape([2]*(2*N)); cur=N
    for q in sorted(set(range(N))-set(keep),reverse=True):
        rho=np.trace(rho,axis1=q,axis2=q+cur); cur-=1
    d=2**len(keep); return rho.reshape(d,d)
bad=0
for t in range(300):
    N=np.random.randint(1,5); r=np.random.randint(0,N+1); s=pc.random_clifford_state(N,r); rho=rho_of(s)
    for k in range(N+1):
        for A in itertools.combinations(range(N),k):
            e=orac2.entropy_gf2(s.gs[r:N],N,list(A)); d=vn(ptrace(rho,N,list(A))) if A else 0
            if abs(e-d)>1e-6: bad+=1
    # canonical group invariance under generator recombination
    if N-r>=2:
        gs=s.gs[r:N].copy(); ps=s.ps[r:N].copy()
        g2,p2=orac2.mul(gs[0],ps[0],gs[1],ps[1])
        gs2=gs.copy(); ps2=ps.copy(); gs2[0]=g2; ps2[0]=p2
        if orac2.canon_group(gs,ps)!=orac2.canon_group(gs2[::-1],ps2[::-1]): bad+=1
print('gf2 bad',bad)
