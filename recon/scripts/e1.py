import shim, orac, numpy as np, itertools
import pyclifford as pc
from pyclifford import utils
from orac import dense
rng=np.random.default_rng(0)
# C01
bad=0;cnt=0
for N in (1,2):
    for g1 in itertools.product((0,1),repeat=2*N):
        for g2 in itertools.product((0,1),repeat=2*N):
            for p1 in range(4):
                for p2 in range(4):
                    a=pc.Pauli(np.array(g1),p1); b=pc.Pauli(np.array(g2),p2)
                    c=a@b
                    cnt+=1
                    if not np.allclose(dense(c.g,c.p), dense(g1,p1)@dense(g2,p2)): bad+=1
            ac=utils.acq(np.array(g1),np.array(g2))
            A=dense(g1);B=dense(g2)
            anti=np.allclose(A@B,-B@A)
            if ac!=int(anti): bad+=1
print('C01',cnt,bad)
# C02 rotation
bad=0;cnt=0
from scipy.linalg import expm
for N in (1,2):
    for g in itertools.product((0,1),repeat=2*N):
        for pg in (0,2):
            G=dense(g,pg); U=expm(1j*np.pi/4*G)
            for h in itertools.product((0,1),repeat=2*N):
                for ph in range(4):
                    P=pc.Pauli(np.array(h),ph)
                    P.rotate_by(pc.Pauli(np.array(g),pg))
                    cnt+=1
                    if not np.allclose(dense(P.g,P.p), U.conj().T@dense(h,ph)@U): bad+=1
print('C02',cnt,bad)
