import shim, orac, numpy as np, itertools, traceback, collections
import pyclifford as pc
from pyclifford import utils
from orac import dense, rho_of
np.random.seed(8)
kinds={}
def flag(k): kinds[k]=kinds.get(k,0)+1
# C18 diagonalize
for N in range(1,5):
    for g in itertools.product((0,1),repeat=2*N):
        if not any(g): continue
        for p in (0,2):
            for i0 in range(N):
                P=pc.Pauli(np.array(g),p)
                circ=pc.diagonalize(P,i0)
                Q=circ.forward(P.copy())
                tgt=np.zeros(2*N,int); tgt[2*i0+1]=1
                if not ((Q.g==tgt).all() and Q.p in (0,2)): flag(('diag',N))
                # causal
                sub=np.array(g[2*i0:])
                if sub.any():
                    circ=pc.diagonalize(P,i0,causal=True)
                    Q=circ.forward(P.copy())
                    ok=(Q.g[:2*i0]==np.array(g[:2*i0])).all() and (Q.g[2*i0:]==tgt[2*i0:]).all() and Q.p in (0,2)
                    if not ok: flag(('causal',N))
                    for l in circ.layers_forward():
                        for gt in l.gates:
                            if min(gt.qubits)<i0: flag('causal-acts-early')
# state diag
for t in range(300):
    N=np.random.randint(1,5)
    s=pc.random_clifford_state(N)
    circ=pc.diagonalize(s)
    z=circ.forward(s.copy())
    if not np.allclose(rho_of(z),rho_of(pc.zero_state(N))): flag('state-diag')
    b=circ.backward(pc.zero_state(N))
    if not np.allclose(rho_of(b),rho_of(s)): flag('state-encode')
print(kinds)
# SBRG
def D(o):
    N=o.N; return sum((o.cs[k]*dense(o.gs[k],o.ps[k]) for k in range(o.L)), np.zeros((2**N,2**N),complex))
for t in range(200):
    N=np.random.randint(1,5)
    # commuting Hamiltonian: random stabilizer group elements
    s=pc.random_clifford_state(N)
    L=np.random.randint(1,6)
    terms=s.sample(L)
    H=pc.PauliPolynomial(terms.gs,terms.ps).set_cs((np.random.randn(L)).astype(complex)).reduce()
    if len(H)==0: continue
    try:
        heff,circ=pc.SBRG(H)
    except Exception as e:
        flag(('sbrg-exc',type(e).__name__,str(e)[:80])); continue
    if (heff.gs[:,0::2]!=0).any(): flag('sbrg-nondiag')
    Hf=circ.forward(H.copy())
    if not np.allclose(D(Hf),D(heff)): flag('sbrg-inexact')
    if not np.allclose(np.sort(np.linalg.eigvalsh(D(H))),np.sort(np.linalg.eigvalsh(D(heff)))): flag('sbrg-spectrum')
for t in range(200):
    N=np.random.randint(1,5); L=np.random.randint(1,8)
    H=pc.PauliPolynomial(np.random.randint(0,2,(L,2*N))).set_cs((np.random.randn(L)).astype(complex)).reduce()
    if len(H)==0: continue
    try:
        heff,circ=pc.SBRG(H)
    except Exception as e:
        flag(('sbrg2-exc',type(e).__name__,str(e)[:80])); continue
    if (heff.gs[:,0::2]!=0).any(): flag('sbrg2-nondiag')
print(kinds)
