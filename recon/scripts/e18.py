import shim, orac, numpy as np, itertools
import pyclifford as pc
from pyclifford import utils, circuit as cc
from orac import dense, rho_of
np.random.seed(22)
kinds={}
def flag(k): kinds[k]=kinds.get(k,0)+1
def valid(st):
    N=st.N; r=st.r
    if not (0<=r<=N): return 'r'
    A=utils.acq_mat(np.asarray(st.gs).astype(int)); J=np.zeros((2*N,2*N),int)
    for i in range(N): J[i,N+i]=J[N+i,i]=1
    if not (A==J).all(): return 'symp'
    if not all(int(st.ps[i])%2==0 for i in range(r,N)): return 'herm'
    rho=rho_of(st)
    if not (abs(np.trace(rho)-1)<1e-9 and np.allclose(rho@rho*2**r,rho)): return 'dense'
# random walks
for w in range(300):
    N=np.random.randint(1,5)
    st=[pc.zero_state,pc.one_state,pc.maximally_mixed_state,pc.ghz_state,pc.random_bit_state,lambda n:pc.random_clifford_state(n,np.random.randint(0,n+1)),lambda n:pc.random_pauli_state(n,np.random.randint(0,n+1))][np.random.randint(7)](N)
    for step in range(60):
        k=np.random.randint(9)
        try:
            if k==0: st.rotate_by(pc.Pauli(np.random.randint(0,2,2*N),2*np.random.randint(0,2)))
            elif k==1: st.transform_by(pc.random_clifford_map(N))
            elif k==2:
                o=pc.random_clifford_state(N); L=np.random.randint(1,N+1); st.measure(pc.PauliList(o.gs[:L].copy(),2*np.random.randint(0,2,L)))
            elif k==3:
                if st.r==0:
                    P=pc.Pauli(np.random.randint(0,2,2*N),2*np.random.randint(0,2))
                    if P.g.any(): st.postselect(P,np.random.randint(0,2))
            elif k==4: st=st.copy()
            elif k==5:
                c=pc.Circuit(N)
                for _ in range(3):
                    if np.random.rand()<0.5: c.measure(*np.random.choice(N,np.random.randint(1,N+1),replace=False).tolist())
                    else:
                        q=np.random.randint(N); c.take([pc.H,pc.S,pc.X,pc.Y,pc.Z][np.random.randint(5)](q))
                c.forward(st)
            elif k==6:
                if N%2==0: pc.brickwall_rcc(N,2).forward(st)
                else: pc.onsite_rcc(N).forward(st)
            elif k==7:
                sh=pc.ClassicalShadow(st,pc.global_rcc(N))
                st=list(sh.snapshots(1))[0]
            elif k==8:
                if N>=2:
                    a,b=np.random.choice(N,2,replace=False).tolist(); pc.CNOT(a,b).forward(st)
        except Exception as e:
            flag(('exc',k,type(e).__name__,str(e)[:60])); break
        v=valid(st)
        if v: flag(('invalid',k,v)); break
print(kinds)
# gate/layer/circuit copies
c=cc.CliffordCircuit(3); g=pc.CliffordGate(0,1); g.set_forward_map(pc.random_clifford_map(2)); c.take(g); c.take(pc.clifford_rotation_gate('-IXY')); c.compile()
c2=c.copy()
print('shares', np.shares_memory(c2.forward_map.gs,c.forward_map.gs), np.shares_memory(c2.first_layer.gates[0].forward_map.gs,c.first_layer.gates[0].forward_map.gs))
# Circuit with measurement: compile then forward
c=pc.Circuit(2); c.take(pc.H(0)); c.measure(0); c.take(pc.CNOT(0,1)); c.compile(); s=pc.zero_state(2); c.forward(s); print(c.measure_result, c.log2prob, s)
