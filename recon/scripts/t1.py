import shim, orac, numpy as np, itertools, collections, torch, traceback
import pyclifford as pc, torchclifford as tc
from torchclifford import utils as tu, paulialg as tp, stabilizer as ts, circuit as tcirc
from pyclifford import utils as pu
from orac import dense
np.random.seed(0); torch.manual_seed(0)
kinds={}
def flag(k): kinds[k]=kinds.get(k,0)+1
T=lambda a: torch.tensor(np.asarray(a),dtype=torch.float32)
def tryit(name,f):
    try: return f()
    except Exception as e:
        flag(('exc',name,type(e).__name__,str(e)[:70])); return None
for t in range(200):
    N=np.random.randint(1,5)
    g1=np.random.randint(0,2,2*N); g2=np.random.randint(0,2,2*N); p1,p2=np.random.randint(0,4,2)
    # acq, ipow
    if int(tu.acq(T(g1),T(g2)))!=pu.acq(g1,g2): flag('acq')
    if int(tu.ipow(T(g1),T(g2)))!=pu.ipow(g1,g2): flag('ipow')
    a=tp.Pauli(T(g1),int(p1)); b=tp.Pauli(T(g2),int(p2)); c=tryit('matmul',lambda:a@b)
    if c is not None:
        cc=pc.Pauli(g1,p1)@pc.Pauli(g2,p2)
        if not (np.array_equal(c.g.numpy().astype(int),cc.g) and int(c.p)==cc.p): flag('matmul')
    L=4
    gs=np.random.randint(0,2,(L,2*N)); ps=np.random.randint(0,4,L)
    if not np.array_equal(tu.ps0(T(gs)).numpy().astype(int),pu.ps0(gs)): flag('ps0')
    if not np.array_equal(tu.acq_mat(T(gs)).numpy().astype(int),pu.acq_mat(gs)): flag('acq_mat')
    # rotate
    g=np.random.randint(0,2,2*N); pg=2*np.random.randint(0,2)
    r=tryit('rotate',lambda:tu.clifford_rotate(T(g),pg,T(gs),T(ps)))
    g_,p_=pu.clifford_rotate(g,pg,gs.copy(),ps.copy())
    if r is not None and not (np.array_equal(r[0].numpy().astype(int),g_) and np.array_equal(r[1].numpy().astype(int)%4,p_)): flag('rotate')
    # transform
    m=pc.random_clifford_map(N)
    r=tryit('transform',lambda:tu.pauli_transform(T(gs),T(ps),T(m.gs),T(m.ps)))
    g_,p_=pu.pauli_transform(gs,ps,m.gs,m.ps)
    if r is not None and not (np.array_equal(r[0].numpy().astype(int),g_) and np.array_equal(r[1].numpy().astype(int)%4,p_)): flag('transform')
    # compose / inverse
    m2=pc.random_clifford_map(N)
    tm=ts.CliffordMap(T(m.gs),T(m.ps)); tm2=ts.CliffordMap(T(m2.gs),T(m2.ps))
    r=tryit('compose',lambda:tm.compose(tm2)); e=m.compose(m2)
    if r is not None and not (np.array_equal(r.gs.numpy().astype(int),e.gs) and np.array_equal(r.ps.numpy().astype(int)%4,e.ps)): flag('compose')
    r=tryit('inverse',lambda:tm.inverse()); e=m.inverse()
    if r is not None and not (np.array_equal(np.asarray(r.gs).astype(int),e.gs) and np.array_equal(np.asarray(r.ps).astype(int)%4,e.ps)): flag('inverse')
    # tokenize
    r=tryit('tokenize',lambda:tu.pauli_tokenize(T(gs),T(ps)))
    if r is not None and not np.array_equal(r.numpy().astype(int),pu.pauli_tokenize(gs,ps)): flag('tokenize')
    # batch_dot
    cs1=np.random.randn(L)+1j*np.random.randn(L)
    r=tryit('batch_dot',lambda:tu.batch_dot(T(gs),T(ps),torch.tensor(cs1,dtype=torch.complex64),T(gs[:2]),T(ps[:2]),torch.tensor(cs1[:2],dtype=torch.complex64)))
    e=pu.batch_dot(gs,ps,cs1,gs[:2],ps[:2],cs1[:2])
    if r is not None and not (np.array_equal(r[0].numpy().astype(int),e[0]) and np.array_equal(r[1].numpy().astype(int)%4,e[1]) and np.allclose(r[2].numpy(),e[2],atol=1e-5)): flag('batch_dot')
    # state: expect / entropy / project
    rr=np.random.randint(0,N+1); st=pc.random_clifford_state(N,rr)
    tst=ts.StabilizerState(T(st.gs),ps=T(st.ps)).set_r(rr)
    obs_g=np.random.randint(0,2,(L,2*N)); obs_p=2*np.random.randint(0,2,L)
    r=tryit('expect',lambda:tst.expect(tp.PauliList(T(obs_g),T(obs_p)))); e=st.expect(pc.PauliList(obs_g,obs_p))
    if r is not None and not np.array_equal(r.numpy().astype(int),e): flag('expect')
    r=tryit('vexpect',lambda:tu.vectorizable_stabilizer_expect(T(st.gs),T(st.ps),T(obs_g),T(obs_p),rr))
    if r is not None and not np.array_equal(r.numpy().astype(int),e): flag(('vexpect',rr>0))
    for sub in ([0],list(range(N))[:2],list(range(N))):
        r=tryit('entropy',lambda:tst.entropy(sub)); e=st.entropy(sub)
        if r is not None and int(r)!=int(e): flag(('entropy',rr>0))
    # overlap
    if rr==0:
        s2=pc.random_clifford_state(N,np.random.randint(0,N+1)); ts2=ts.StabilizerState(T(s2.gs),ps=T(s2.ps)).set_r(s2.r)
        r=tryit('overlap',lambda:tst.expect(ts2)); e=st.expect(s2)
        if r is not None and abs(float(r)-e)>1e-9: flag('overlap')
    # project
    comm=pc.random_clifford_state(N); k=np.random.randint(1,N+1)
    r=tryit('project',lambda:tu.stabilizer_project(T(st.gs),T(comm.gs[:k]),rr)); e=pu.stabilizer_project(st.gs.copy(),comm.gs[:k].copy(),rr)
    if r is not None and not (np.array_equal(r[0].numpy().astype(int),e[0]) and r[1]==e[1]): flag(('project',rr>0))
    # map<->state
    r=tu.map_to_state(T(m.gs),T(m.ps)); e=pu.map_to_state(m.gs,m.ps)
    if not (np.array_equal(r[0].numpy().astype(int),e[0]) and np.array_equal(r[1].numpy().astype(int),e[1])): flag('map_to_state')
    r=tu.state_to_map(T(m.gs),T(m.ps)); e=pu.state_to_map(m.gs,m.ps)
    if not (np.array_equal(r[0].numpy().astype(int),e[0]) and np.array_equal(r[1].numpy().astype(int),e[1])): flag('state_to_map')
for k,v in sorted(kinds.items(),key=str): print(k,v)
