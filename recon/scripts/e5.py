import shim, orac, numpy as np, itertools
import pyclifford as pc
from pyclifford import utils
from orac import dense, rho_of
np.random.seed(3)
def key(m): return (np.asarray(m.gs).astype(int).tobytes(), (np.asarray(m.ps)%4).astype(int).tobytes())
# C11
ks=[key(pc.C(k,0).forward_map) for k in range(24)]
print('distinct C:',len(set(ks)))
dups=[(i,j) for i in range(24) for j in range(i+1,24) if ks[i]==ks[j]]; print('dups',dups)
S=set(ks)
closed=all(key(pc.C(a,0).forward_map.compose(pc.C(b,0).forward_map)) in S for a in range(24) for b in range(24))
inv=all(key(pc.C(a,0).forward_map.inverse()) in S for a in range(24))
print('closed',closed,'inv',inv)
for bad in (-1,24,100):
    try: pc.C(bad,0); print('accepted',bad)
    except ValueError as e: print('rejected',bad)
for f in (pc.H,pc.S,pc.X,pc.Y,pc.Z):
    try: f(0,1); print('accepted 2 qubits', f.__name__)
    except ValueError: pass
try: pc.CNOT(0); print('CNOT accepted 1')
except ValueError: pass
try: pc.CNOT(1,1); print('CNOT accepted (1,1)')
except Exception as e: print('CNOT(1,1)',type(e))
# textbook tables
def act(gate,N,s):
    P=pc.pauli(s); gate.forward(P); return repr(P)
print('H',act(pc.H(1),3,'IXI'),act(pc.H(1),3,'IZI'),act(pc.H(1),3,'IYI'))
print('S',act(pc.S(1),3,'IXI'),act(pc.S(1),3,'IZI'),act(pc.S(1),3,'IYI'))
print('X',act(pc.X(1),3,'IXI'),act(pc.X(1),3,'IZI'),act(pc.X(1),3,'IYI'))
print('Y',act(pc.Y(1),3,'IXI'),act(pc.Y(1),3,'IZI'),act(pc.Y(1),3,'IYI'))
print('Z',act(pc.Z(1),3,'IXI'),act(pc.Z(1),3,'IZI'),act(pc.Z(1),3,'IYI'))
for c,t in ((0,2),(2,0)):
    g=pc.CNOT(c,t)
    for s in ('XII','ZII','IIX','IIZ','YII','IIY','XIZ'):
        print('CNOT',c,t,s,act(g,3,s))
