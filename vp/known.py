"""Known findings: declarative matching of violation records against /verif/KNOWN_FINDINGS.json.

An entry with status "known" downgrades a violation only when *all* of
  property in entry.properties, backend equal, fnmatch(sub, entry.sub),
  and every key of entry.requires equals the same key in the violation's tags
hold. The tags are computed by the check at the moment of the violation from the failing
case itself (structural facts and "the observation equals the closed form of the known wrong
behaviour"), never from seeds or hashes. Entries with status "fixed" suppress nothing.
The file is read-only at run time.
"""
import fnmatch
import json
import os

from . import env

PATH = os.path.join(env.VERIF, "KNOWN_FINDINGS.json")


def load():
    try:
        with open(PATH) as f:
            return json.load(f).get("findings", [])
    except FileNotFoundError:
        return []


def match(viol, findings):
    for e in findings:
        if e.get("status") != "known":
            continue
        if viol["property"] not in e.get("properties", []):
            continue
        if e.get("backend") and e["backend"] != viol.get("backend"):
            continue
        if not any(fnmatch.fnmatchcase(viol["sub"], pat) for pat in e.get("subs", ["*"])):
            continue
        tags = viol.get("tags") or {}
        if all(tags.get(k) == v for k, v in e.get("requires", {}).items()):
            return e
    return None
