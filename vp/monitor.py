"""Recording side of the monitors: event log, verdict bookkeeping, boundary
wrappers on the real library classes, snapshots for side-effect detection.

Monitors record and continue; they never raise into the code under test.
"""
import fnmatch
import functools
import hashlib
import json
import os
import time
import traceback

import numpy as np

from . import oracle as O


def _jsonable(x):
    if isinstance(x, dict):
        return {str(k): _jsonable(v) for k, v in x.items()}
    if isinstance(x, (list, tuple, set, frozenset)):
        return [_jsonable(v) for v in x]
    if isinstance(x, np.ndarray):
        return _jsonable(x.tolist())
    if isinstance(x, (np.integer,)):
        return int(x)
    if isinstance(x, (np.floating,)):
        return float(x)
    if isinstance(x, (np.bool_,)):
        return bool(x)
    if isinstance(x, complex) or isinstance(x, np.complexfloating):
        return [float(np.real(x)), float(np.imag(x))]
    if isinstance(x, (int, float, str, bool)) or x is None:
        return x
    try:
        import torch
        if torch.is_tensor(x):
            return _jsonable(x.detach().cpu().numpy())
    except Exception:
        pass
    return repr(x)


def digest64(obj):
    b = json.dumps(_jsonable(obj), sort_keys=True, separators=(',', ':')).encode()
    return int.from_bytes(hashlib.blake2b(b, digest_size=8).digest(), 'big')


class Recorder(object):
    MAX_VIOL = 40

    def __init__(self, prop, shard, backend, mode, seed, tier):
        self.prop = prop
        self.shard = shard
        self.backend = backend
        self.mode = mode
        self.seed = seed
        self.tier = tier
        self.counts = {}
        self.fail_counts = {}
        self.digests = set()
        self.nontrivial = set()
        self.samples = {}
        self.violations = []
        self.calls = {}
        self.extra = {}
        self.spaces = []
        self.refusals = {}
        self.problems = []  # reasons for an inconclusive verdict
        self.t0 = time.time()
        self.ring = []

    # ---- event log
    def event(self, name, n=1):
        self.calls[name] = self.calls.get(name, 0) + n

    def note(self, key, value):
        self.extra[key] = value

    def bump(self, key, n=1):
        self.extra[key] = self.extra.get(key, 0) + n

    def space(self, name, size, exhaustive=True):
        self.spaces.append({"name": name, "size": int(size), "exhaustive": bool(exhaustive)})

    def inconclusive(self, reason):
        if reason not in self.problems:
            self.problems.append(reason)

    def refusal(self, name):
        self.refusals[name] = self.refusals.get(name, 0) + 1

    # ---- verdicts
    def check(self, sub, ok, case, nontrivial=True, expected=None, observed=None, tags=None):
        """one oracle comparison. `case` identifies the inputs (json-able)."""
        self.counts[sub] = self.counts.get(sub, 0) + 1
        d = digest64((sub, case))
        self.digests.add(d)
        if nontrivial:
            self.nontrivial.add(d)
        s = self.samples.setdefault(sub, [])
        if len(s) < 2 and nontrivial:
            s.append(_jsonable({"case": case, "observed": observed if observed is not None else "as expected"}))
        if not ok:
            self.violation(sub, case, expected, observed, tags, d)
        return ok

    def batch(self, sub, n, n_nontrivial, keys, ok=True):
        """bulk bookkeeping for vectorised comparisons: `keys` is an iterable of 64-bit case hashes
        (or None: then distinctness is counted conservatively as 0 new cases)."""
        self.counts[sub] = self.counts.get(sub, 0) + int(n)
        if keys is not None:
            salt = digest64(sub) & 0xFFFFFFFF
            ks = set((int(k) ^ salt) & 0xFFFFFFFFFFFFFFFF for k in keys)
            self.digests |= ks
            self.nontrivial |= ks  # caller passes only non-trivial keys
        return ok

    def violation(self, sub, case, expected=None, observed=None, tags=None, d=None):
        self.fail_counts[sub] = self.fail_counts.get(sub, 0) + 1
        if len(self.violations) >= self.MAX_VIOL and self.fail_counts[sub] > 3:
            return
        rec = {
            "property": self.prop, "sub": sub, "shard": self.shard, "backend": self.backend,
            "mode": self.mode, "seed": self.seed, "tier": self.tier,
            "case": _jsonable(case), "expected": _jsonable(expected), "observed": _jsonable(observed),
            "tags": _jsonable(tags or {}),
            "digest": "%016x" % (d if d is not None else digest64((sub, case))),
            "recent_events": list(self.ring[-8:]),
        }
        self.violations.append(rec)

    def attempt(self, sub, case, fn, *a, **k):
        """run a library call that the property promises to succeed; an escaping exception is a violation."""
        try:
            return True, fn(*a, **k)
        except Exception as e:  # noqa
            if getattr(self, "lenient", False):
                # element-type shards: a refusal is not an answer and is not judged (counted and shown in the evidence)
                self.refusal("%s:%s" % (sub, type(e).__name__))
                return False, None
            tb = traceback.extract_tb(e.__traceback__)
            where = ["%s:%d %s" % (os.path.basename(f.filename), f.lineno, f.name) for f in tb[-3:]]
            repo = os.path.realpath(os.environ.get("VP_REPO", "/repo")) + os.sep
            if not any(os.path.realpath(f.filename).startswith(repo) for f in tb):
                # no frame of the library under test is involved: a harness bug, never a verdict on the library
                self.inconclusive("harness error in %s: %s: %s @ %s" % (sub, type(e).__name__, str(e)[:200], where))
                return False, None
            self.counts[sub] = self.counts.get(sub, 0) + 1
            self.violation(sub + ".raises", case, expected="a result",
                           observed="%s: %s @ %s" % (type(e).__name__, str(e)[:200], where),
                           tags={"exception": type(e).__name__, "where": where[-1] if where else ""})
            return False, None

    def result(self):
        return {
            "property": self.prop, "shard": self.shard, "backend": self.backend, "mode": self.mode,
            "seed": self.seed, "tier": self.tier,
            "counts": self.counts, "fail_counts": self.fail_counts,
            "n_digests": len(self.digests), "n_nontrivial": len(self.nontrivial),
            "samples": self.samples, "violations": self.violations, "calls": self.calls,
            "extra": _jsonable(self.extra), "spaces": self.spaces, "refusals": self.refusals,
            "problems": self.problems, "wall_s": time.time() - self.t0,
        }


# ---------------------------------------------------------------------------
# snapshots (bitwise) of library objects, for side-effect / aliasing monitors
def _arr(x):
    try:
        import torch
        if torch.is_tensor(x):
            return x.detach().cpu().numpy()
    except Exception:
        pass
    return x


def arrays_of(obj, depth=0, seen=None, path=""):
    """(path, ndarray-or-tensor) for every array reachable from obj through attributes / lists / layer links."""
    if seen is None:
        seen = set()
    out = []
    if obj is None or isinstance(obj, (int, float, complex, str, bool)) or depth > 12:
        return out
    if id(obj) in seen:
        return out
    seen.add(id(obj))
    is_t = False
    try:
        import torch
        is_t = torch.is_tensor(obj)
    except Exception:
        pass
    if isinstance(obj, np.ndarray) or is_t:
        out.append((path, obj))
        return out
    if isinstance(obj, (list, tuple)):
        for i, v in enumerate(obj):
            out += arrays_of(v, depth + 1, seen, "%s[%d]" % (path, i))
        return out
    if isinstance(obj, dict):
        for k, v in obj.items():
            out += arrays_of(v, depth + 1, seen, "%s[%r]" % (path, k))
        return out
    d = getattr(obj, "__dict__", None)
    if d is not None:
        for k in sorted(d):
            if k == "prev_layer" or k.startswith("_"):  # back links and private caches are representation, not value
                continue
            out += arrays_of(d[k], depth + 1, seen, path + "." + k)
    return out


def snapshot(obj):
    """deep, bitwise snapshot: arrays (as int/complex lists with shape) and scalars reachable from obj."""
    snap = {}
    for path, a in arrays_of(obj):
        n = np.array(_arr(a))
        # values, not dtypes, are judged: normalise the representation
        if n.dtype.kind in "iubf":
            n = n.astype(np.float64)
        elif n.dtype.kind == "c":
            n = n.astype(np.complex128)
        snap[path] = (n.shape, n.dtype.kind, n.tobytes())
    _scalars(obj, snap, "", set(), 0)
    return snap


def _scalars(obj, snap, path, seen, depth):
    if obj is None or depth > 12 or id(obj) in seen:
        return
    seen.add(id(obj))
    d = getattr(obj, "__dict__", None)
    if d is None:
        if isinstance(obj, (list, tuple)):
            for i, v in enumerate(obj):
                if isinstance(v, (int, float, complex, str, bool, np.integer, np.floating)):
                    snap["%s[%d]" % (path, i)] = ("scalar", _srepr(v))
                else:
                    _scalars(v, snap, "%s[%d]" % (path, i), seen, depth + 1)
        return
    for k in sorted(d):
        v = d[k]
        if k == "prev_layer" or k.startswith("_"):
            continue
        if isinstance(v, (int, float, complex, str, bool, np.integer, np.floating, np.complexfloating)) or v is None:
            snap[path + "." + k] = ("scalar", _srepr(v))
        elif isinstance(v, (np.ndarray,)):
            continue
        else:
            _scalars(v, snap, path + "." + k, seen, depth + 1)


def _srepr(v):
    if isinstance(v, (bool, str)) or v is None:
        return repr(v)
    try:
        return repr(complex(v))
    except Exception:
        return repr(v)


def snap_diff(a, b):
    keys = sorted(set(a) | set(b))
    return [k for k in keys if a.get(k) != b.get(k)]


def shares_memory(x, y):
    """paths of arrays reachable from x and y that overlap in memory."""
    out = []
    ax = arrays_of(x)
    ay = arrays_of(y)
    for px, a in ax:
        for py, b in ay:
            try:
                import torch
                if torch.is_tensor(a) and torch.is_tensor(b):
                    if a.numel() and b.numel() and a.untyped_storage().data_ptr() == b.untyped_storage().data_ptr():
                        out.append((px, py))
                    continue
                if torch.is_tensor(a) or torch.is_tensor(b):
                    continue
            except ImportError:
                pass
            if a.size and b.size and np.shares_memory(a, b):
                out.append((px, py))
    return out


# ---------------------------------------------------------------------------
# boundary wrappers on the real classes
class Hooks(object):
    """setattr-based call/return wrappers on library classes. Each wrapper counts the call,
    keeps a ring buffer of recent events, and runs registered post-hooks (recording only)."""

    def __init__(self, rec):
        self.rec = rec
        self.installed = []

    def wrap(self, owner, name, post=None, label=None):
        orig = owner.__dict__.get(name) if isinstance(owner, type) else getattr(owner, name, None)
        if orig is None or getattr(orig, "_vp_wrapped", False):
            return False
        if isinstance(orig, (staticmethod, classmethod, property)):
            return False
        rec = self.rec
        lab = label or ("%s.%s" % (getattr(owner, "__name__", str(owner)), name))

        @functools.wraps(orig)
        def wrapper(*a, **k):
            rec.calls[lab] = rec.calls.get(lab, 0) + 1
            if len(rec.ring) > 64:
                del rec.ring[:32]
            rec.ring.append(lab)
            try:
                res = orig(*a, **k)
            except Exception as e:
                rec.calls[lab + "!raise"] = rec.calls.get(lab + "!raise", 0) + 1
                raise
            if post is not None:
                try:
                    post(lab, a, k, res)
                except Exception as e:  # a broken monitor must not look like a library failure
                    rec.inconclusive("monitor %s failed: %s: %s" % (lab, type(e).__name__, e))
            return res
        wrapper._vp_wrapped = True
        wrapper._vp_orig = orig
        setattr(owner, name, wrapper)
        self.installed.append((owner, name, orig))
        return True

    def remove(self):
        for owner, name, orig in reversed(self.installed):
            if orig is None:
                delattr(owner, name)
            else:
                setattr(owner, name, orig)
        self.installed = []


STATE_METHODS = ["copy", "set_r", "to_map", "measure", "postselect", "expect", "entropy", "sample",
                 "get_prob", "rotate_by", "transform_by", "tokenize", "to_qutip"]


def install_state_invariant(lib, rec, to_np):
    """C05-style invariant at a hook: after every public method of the real StabilizerState class
    the receiver must be a valid tableau. Recorded under sub 'hook.invariant.<method>'."""
    hooks = Hooks(rec)
    cls = lib.StabilizerState

    valid_seen = set()

    def post(lab, a, k, res):
        st = a[0]
        if not isinstance(st, cls):
            return
        rec.counts["hook.invariant"] = rec.counts.get("hook.invariant", 0) + 1
        try:
            g, p = to_np(st.gs), to_np(st.ps)
            key = (g.tobytes(), p.tobytes(), _scalar(st.r), g.shape)
        except Exception:
            key = None
        if key is not None and key in valid_seen:
            return
        probs = O.tableau_problems(to_np(st.gs), to_np(st.ps), _scalar(st.r))
        if not probs and key is not None and len(valid_seen) < 400000:
            valid_seen.add(key)
        if probs:
            rec.violation("hook.invariant." + lab.split(".")[-1],
                          {"gs": to_np(st.gs), "ps": to_np(st.ps), "r": _scalar(st.r)},
                          expected="valid tableau", observed=probs,
                          tags={"hook": lab})
    for m in STATE_METHODS:
        # methods may be inherited from PauliList: wrap on the subclass via a forwarding definition
        if m in cls.__dict__:
            hooks.wrap(cls, m, post)
        else:
            base = getattr(cls, m, None)
            if base is None:
                continue

            def make(bm):
                def fwd(self, *a, **k):
                    return bm(self, *a, **k)
                fwd.__name__ = bm.__name__
                return fwd
            setattr(cls, m, make(base))
            hooks.installed.append((cls, m, None))
            hooks.wrap(cls, m, post)
    return hooks


def _scalar(x):
    try:
        import torch
        if torch.is_tensor(x):
            return x.item()
    except Exception:
        pass
    return x
