"""Exact / conservative tail probabilities for the statistical sub-checks (alpha = 1e-9 per test)."""
from math import lgamma, log, exp

ALPHA = 1e-9


def binom_two_sided(n, k, p=0.5):
    """P(|X - np| >= |k - np|) for X ~ Bin(n,p), exact (log space)."""
    if n == 0:
        return 1.0
    mu = n * p
    d = abs(k - mu)
    lp, lq = log(p), log(1 - p)
    tot = 0.0
    for i in range(0, n + 1):
        if abs(i - mu) >= d - 1e-12:
            tot += exp(lgamma(n + 1) - lgamma(i + 1) - lgamma(n - i + 1) + i * lp + (n - i) * lq)
    return min(1.0, tot)


def chi2_tail(counts, expected=None):
    """(statistic, dof, tail probability) of Pearson's chi-square against a uniform (or given) expectation."""
    from scipy.stats import chi2
    n = float(sum(counts))
    k = len(counts)
    if expected is None:
        expected = [n / k] * k
    stat = sum((c - e) ** 2 / e for c, e in zip(counts, expected))
    return stat, k - 1, float(chi2.sf(stat, k - 1))
