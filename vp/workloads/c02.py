"""C02 Clifford rotation by a Pauli generator is conjugation by exp(i*pi/4*G)."""
import itertools

import numpy as np

from .. import oracle as O
from .. import gen

RULE = ("exhaustive (generator incl. identity and sign) x (operand string x 4 phases) for N<=2 on every receiver kind "
        "(Pauli, list, polynomial, map, state), all non-empty masks x all generators of matching size for N=3; random "
        "hostile cases to N=40; rotation sequences undone in reverse; non-trivial = generator non-identity and at least "
        "one operand anticommutes with it")
ASSUMPTIONS = ["generators are Hermitian (phase 0 or 2), masks are boolean vectors whose size matches the generator",
               "oracle: U=(1+iG)/sqrt2 dense (N<=3..5) and table rule 'commute->same, anticommute->i*P*G'"]
REQUIRED_SUBS = ["rot.rule", "rot.dense", "rot.pauli", "rot.list", "rot.poly", "rot.map", "rot.state", "rot.state.dense",
                 "rot.mask.*", "rot.untouched", "rot.undo", "rot.order4", "rotmap", "rot.kernel"]
REQUIRED_CALLS = ["StabilizerState.rotate_by"]


def shards(tier):
    q = tier == "quick"
    out = [
        {"name": "exh.np.interp", "mode": "interp", "backend": "np", "fn": "exh", "Ns": [1, 2]},
        {"name": "exh.np.jit", "mode": "jit", "backend": "np", "fn": "exh", "Ns": [1, 2]},
        {"name": "mask.np.interp", "mode": "interp", "backend": "np", "fn": "masks", "Ns": [2, 3], "nop": 64},
        {"name": "mask.np.jit", "mode": "jit", "backend": "np", "fn": "masks", "Ns": [3] if q else [3, 4], "nop": 64},
        {"name": "rand.np.jit", "mode": "jit", "backend": "np", "fn": "rand", "n": 1500 if q else 60000},
        {"name": "forms.np.jit", "mode": "jit", "backend": "np", "fn": "rand", "n": 500 if q else 15000, "forms": 1},
        {"name": "exh.torch", "mode": "jit", "backend": "torch", "fn": "exh", "Ns": [1, 2]},
        {"name": "mask.torch", "mode": "jit", "backend": "torch", "fn": "masks", "Ns": [2, 3], "nop": 32},
        {"name": "rand.torch", "mode": "jit", "backend": "torch", "fn": "rand", "n": 400 if q else 10000},
        {"name": "big.np.jit", "mode": "jit", "backend": "np", "fn": "big", "n": 2 if q else 40},
        {"name": "big.torch", "mode": "jit", "backend": "torch", "fn": "big", "n": 1 if q else 10},
        {"name": "forms.torch", "mode": "jit", "backend": "torch", "fn": "rand", "n": 150 if q else 4000, "forms": 1},
    ]
    if not q:
        out.append({"name": "exh3.np.jit", "mode": "jit", "backend": "np", "fn": "exh", "Ns": [3]})
        for k in range(4):
            out.append({"name": "rand.np.jit.%d" % k, "mode": "jit", "backend": "np", "fn": "rand", "n": 60000})
        out.append({"name": "rand.np.interp", "mode": "interp", "backend": "np", "fn": "rand", "n": 6000})
    return out


def run(shard, rec, B):
    globals()["run_" + shard["fn"]](shard, rec, B)


def _expected(G, PG, gs, ps, qubits, N):
    """oracle image of rows (gs, ps) on N qubits under rotation by generator (G,PG) placed on `qubits`."""
    Gfull = O.embed_string(G, qubits, N)
    return O.rot_image(Gfull, PG, gs, ps)


def _mask(qubits, N):
    m = np.zeros(N, dtype=bool)
    m[list(qubits)] = True
    return m


def _lib_mask(B, qubits, N):
    m = _mask(qubits, N)
    return m if B.name == "np" else B.torch.tensor(m)


def check_all_kinds(rec, B, G, PG, qubits, N, gs, ps, rng, dense=True, tag=""):
    """rotate every receiver kind holding the rows (gs,ps) and compare with the oracle."""
    full = (len(qubits) == N)
    eg, ep = _expected(G, PG, gs, ps, qubits, N)
    Gfull = O.embed_string(G, qubits, N)
    nt = bool(np.any(G)) and bool(np.any(O.anti(Gfull, gs)))
    case = {"G": O.show(G, PG), "qubits": list(qubits), "N": N, "ops": [O.show(g, p) for g, p in zip(gs[:6], ps[:6])], "L": len(gs)}
    sub = "rot.list" if full else "rot.mask.list"
    gen_ = B.Pauli(G, PG)
    if B.name == "np" and rng.integers(3) == 0:
        B.freeze(gen_)      # the generator is only read
    kw = {} if full else {"mask": _lib_mask(B, qubits, N)}
    # oracle self-consistency on the dense layer (N small): rule == U^dag P U
    if dense and N <= 3:
        U = O.rot_unitary(Gfull, PG)
        for j in range(min(len(gs), 4)):
            rec.check("rot.dense", O.close(U.conj().T @ O.dense(gs[j], ps[j]) @ U, O.dense(eg[j], ep[j])),
                      [case["G"], case["qubits"], O.show(gs[j], ps[j])], nt)
    # PauliList
    PL = B.PauliList(gs.copy(), ps.copy())
    ok, R = rec.attempt(sub, case, lambda: PL.rotate_by(gen_, **kw))
    if ok:
        lg, lp = B.gsps(PL)
        good = np.array_equal(lg, eg) and np.array_equal(lp, ep)
        rec.check(sub, good and R is PL, case, nt, expected=[O.show(g, p) for g, p in zip(eg[:8], ep[:8])],
                  observed=[O.show(g, p) for g, p in zip(lg[:8], lp[:8])])
        rec.check("rot.rule", good, case, nt)
        if not full:
            out = [c for q in range(N) if q not in qubits for c in (2 * q, 2 * q + 1)]
            rec.check("rot.untouched", np.array_equal(lg[:, out], gs[:, out]), case, nt)
        gg, gp_ = B.gp(gen_)
        rec.check("rot.arg_unchanged", np.array_equal(gg, G) and gp_ == PG % 4, case, nt)
    # single Pauli (first few rows)
    for j in range(min(len(gs), 3)):
        P = B.Pauli(gs[j].copy(), int(ps[j]))
        ok, R = rec.attempt("rot.pauli", case, lambda: P.rotate_by(gen_, **kw))
        if ok:
            lg, lp = B.gp(P)
            rec.check("rot.pauli" if full else "rot.mask.pauli", np.array_equal(lg, eg[j]) and lp == ep[j] and R is P,
                      [case["G"], case["qubits"], O.show(gs[j], ps[j])], nt and bool(O.anti(Gfull, gs[j])),
                      expected=O.show(eg[j], ep[j]), observed=O.show(lg, lp))
    # monomial receiver (pyclifford): string and phase rotated, coefficient untouched
    if hasattr(B.paulialg, "PauliMonomial"):
        j = int(rng.integers(len(gs)))
        Mn = B.Pauli(gs[j].copy(), int(ps[j])).as_monomial()
        Mn.c = 0.5 - 2j
        ok, R = rec.attempt("rot.mono", case, lambda: Mn.rotate_by(gen_, **kw))
        if ok:
            lg, lp = B.gp(Mn)
            rec.check("rot.mono" if full else "rot.mask.mono", np.array_equal(lg, eg[j]) and lp == ep[j] and Mn.c == 0.5 - 2j and R is Mn,
                      [case["G"], case["qubits"], O.show(gs[j], ps[j])], nt and bool(O.anti(Gfull, gs[j])), expected=O.show(eg[j], ep[j]), observed=O.show(lg, lp))
    # polynomial: coefficients untouched
    cs = gen.rand_coeffs(rng, len(gs))
    Q = B.Poly(gs.copy(), ps.copy(), cs.copy())
    ok, R = rec.attempt("rot.poly", case, lambda: Q.rotate_by(gen_, **kw))
    if ok:
        lg, lp = B.gsps(Q)
        rec.check("rot.poly" if full else "rot.mask.poly", np.array_equal(lg, eg) and np.array_equal(lp, ep)
                  and np.allclose(B.cnp(Q.cs), cs, atol=1e-6), case, nt)
    return eg, ep


def check_map_state(rec, B, G, PG, qubits, N, rng):
    """maps and states as receivers: all 2N rows rotated; state additionally rho' = U^dag rho U, r unchanged."""
    full = (len(qubits) == N)
    gen_ = B.Pauli(G, PG)
    if B.name == "np" and rng.integers(3) == 0:
        B.freeze(gen_)      # the generator is only read
    kw = {} if full else {"mask": _lib_mask(B, qubits, N)}
    Gfull = O.embed_string(G, qubits, N)
    mg, mp = O.random_map(rng, N)
    eg, ep = O.rot_image(Gfull, PG, mg, mp)
    case = {"G": O.show(G, PG), "qubits": list(qubits), "map": [O.show(g, p) for g, p in zip(mg, mp)]}
    M = B.Map(mg.copy(), mp.copy())
    nt = bool(G.any())
    ok, _ = rec.attempt("rot.map", case, lambda: M.rotate_by(gen_, **kw))
    if ok:
        lg, lp = B.gsps(M)
        rec.check("rot.map" if full else "rot.mask.map", np.array_equal(lg, eg) and np.array_equal(lp, ep), case, nt)
    tg, tp, r = O.random_tableau(rng, N)
    eg, ep = O.rot_image(Gfull, PG, tg, tp)
    case = {"G": O.show(G, PG), "qubits": list(qubits), "r": r, "tableau": [O.show(g, p) for g, p in zip(tg, tp)]}
    S = B.State(tg.copy(), tp.copy(), r)
    ok, _ = rec.attempt("rot.state", case, lambda: S.rotate_by(gen_, **kw))
    if ok:
        lg, lp, lr = B.state(S)
        rec.check("rot.state" if full else "rot.mask.state", np.array_equal(lg, eg) and np.array_equal(lp, ep) and lr == r,
                  case, nt, expected=[O.show(g, p) for g, p in zip(eg, ep)], observed=[O.show(g, p) for g, p in zip(lg, lp)])
        if N <= 4:
            U = O.rot_unitary(Gfull, PG)
            rec.check("rot.state.dense", O.close(O.rho(lg, lp, lr), U.conj().T @ O.rho(tg, tp, r) @ U), case, nt)


def run_exh(shard, rec, B):
    rng = gen.rng_for(rec)
    for N in shard["Ns"]:
        S = O.all_strings(N)
        ops_g = np.repeat(S, 4, axis=0)
        ops_p = np.tile(np.arange(4), len(S))
        rec.space("generators(+-) x operands(4 phases) N=%d" % N, 2 * len(S) * len(ops_g))
        qubits = list(range(N))
        for G in S:
            for PG in (0, 2):
                if N <= 2:
                    check_all_kinds(rec, B, G, PG, qubits, N, ops_g, ops_p, rng)
                    # every operand as an individual Pauli receiver
                    eg, ep = O.rot_image(G, PG, ops_g, ops_p)
                    gen_ = B.Pauli(G, PG)
                    for j in range(len(ops_g)):
                        P = B.Pauli(ops_g[j].copy(), int(ops_p[j]))
                        ok, _ = rec.attempt("rot.pauli", [O.show(G, PG), O.show(ops_g[j], ops_p[j])], lambda: P.rotate_by(gen_))
                        if ok:
                            lg, lp = B.gp(P)
                            rec.check("rot.pauli", np.array_equal(lg, eg[j]) and lp == ep[j],
                                      [O.show(G, PG), O.show(ops_g[j], ops_p[j])], bool(G.any()) and bool(O.anti(G, ops_g[j])),
                                      expected=O.show(eg[j], ep[j]), observed=O.show(lg, lp))
                else:
                    idx = rng.integers(0, len(ops_g), 48)
                    check_all_kinds(rec, B, G, PG, qubits, N, ops_g[idx], ops_p[idx], rng)
                check_map_state(rec, B, G, PG, qubits, N, rng)
                # undo and order four, on the full operand list
                PL = B.PauliList(ops_g.copy(), ops_p.copy())
                ok, _ = rec.attempt("rot.undo", O.show(G, PG), lambda: PL.rotate_by(B.Pauli(G, PG)).rotate_by(B.Pauli(G, (PG + 2) % 4)))
                if ok:
                    lg, lp = B.gsps(PL)
                    rec.check("rot.undo", np.array_equal(lg, ops_g) and np.array_equal(lp, ops_p % 4), [N, O.show(G, PG)], bool(G.any()))
                PL = B.PauliList(ops_g.copy(), ops_p.copy())
                ok, _ = rec.attempt("rot.order4", O.show(G, PG), lambda: [PL.rotate_by(B.Pauli(G, PG)) for _ in range(4)])
                if ok:
                    lg, lp = B.gsps(PL)
                    rec.check("rot.order4", np.array_equal(lg, ops_g) and np.array_equal(lp, ops_p % 4), [N, O.show(G, PG)], bool(G.any()))
                # the map constructor and the bare kernel
                _rotmap(rec, B, G, PG)
                _kernel(rec, B, G, PG, ops_g, ops_p)


def _rotmap(rec, B, G, PG):
    N = len(G) // 2
    eg, ep = O.map_of_rotation(G, PG)
    for form, arg in (("pauli", lambda: B.Pauli(G, PG)), ("string", lambda: ('-' if PG == 2 else '') + O.g2s(G))):
        ok, M = rec.attempt("rotmap", [form, O.show(G, PG)], lambda: B.stabilizer.clifford_rotation_map(arg()))
        if ok:
            lg, lp = B.gsps(M)
            rec.check("rotmap", np.array_equal(lg, eg) and np.array_equal(lp, ep) and O.map_valid(lg, lp),
                      [form, O.show(G, PG)], bool(G.any()), expected=[O.show(g, p) for g, p in zip(eg, ep)],
                      observed=[O.show(g, p) for g, p in zip(lg, lp)])


def _kernel(rec, B, G, PG, gs, ps):
    a, b = B.arr(gs.copy()), B.arr(ps.copy())
    ok, R = rec.attempt("rot.kernel", O.show(G, PG), lambda: B.utils.clifford_rotate(B.arr(G), PG, a, b))
    if ok:
        eg, ep = O.rot_image(G, PG, gs, ps)
        rec.check("rot.kernel", np.array_equal(B.np(R[0]), eg) and np.array_equal(B.ph(R[1]), ep), [O.show(G, PG), len(gs)], bool(G.any()))
    a = B.arr(gs.copy())
    ok, R = rec.attempt("rot.kernel.signless", O.show(G, PG), lambda: B.utils.clifford_rotate_signless(B.arr(G), a))
    if ok:
        eg, _ = O.rot_image(G, 0, gs, ps)
        rec.check("rot.kernel.signless", np.array_equal(B.np(R), eg), [O.show(G, PG), len(gs)], bool(G.any()))


def run_masks(shard, rec, B):
    rng = gen.rng_for(rec)
    for N in shard["Ns"]:
        S = O.all_strings(N)
        for qubits in gen.subsets(N):
            if not qubits:
                continue
            n = len(qubits)
            gens = O.all_strings(n)
            if N >= 4 and n >= 3:
                gens = gens[rng.integers(0, len(gens), 24)]
            rec.space("mask %r of N=%d: all generators of size %d" % (qubits, N, n), len(gens) * 2, exhaustive=(N < 4 or n < 3))
            for G in gens:
                for PG in (0, 2):
                    idx = rng.integers(0, len(S), shard["nop"])
                    gs = S[idx]
                    ps = rng.integers(0, 4, len(idx))
                    check_all_kinds(rec, B, G, PG, qubits, N, gs, ps, rng, dense=(N <= 3))
                    if (G.sum() + PG) % 3 == 0 or N <= 2:
                        check_map_state(rec, B, G, PG, qubits, N, rng)


def _rotmap_mixed_widths(rec, B, rng):
    """One process asks for the rotation maps of generators on registers of different sizes held in integer arrays of
    different widths, chosen so that the raw storage of two different generators coincides (X on qubit 0 of 1 qubit in int64
    words = 16 bytes = X on qubit 0 of 8 qubits in bytes): each answer is that generator's own map, in either order of asking.
    A refusal of a narrow element type is not judged."""
    for rnd in range(6):
        N0 = 1 + rnd % 3
        G0 = gen.rand_string(rng, N0).astype(np.int64)
        while not G0.any():
            G0 = gen.rand_string(rng, N0).astype(np.int64)
        PG = 2 * int(rng.integers(2))
        fam = [G0] + [np.frombuffer(G0.tobytes(), dtype=dt).copy() for dt in (np.int32, np.int16, np.uint8, np.int8)]
        if rnd % 2:
            fam = fam[::-1]
        for G in fam:
            case = ["mixed widths", str(G.dtype), len(G) // 2, O.show((G != 0).astype(np.int64), PG)]
            try:
                M = B.stabilizer.clifford_rotation_map(B.Pauli(G, PG))
                lg, lp = B.gsps(M)
            except Exception as e:
                rec.refusal("rotmap.mixed_widths:%s:%s" % (G.dtype, type(e).__name__))
                continue
            eg, ep = O.map_of_rotation((G != 0).astype(np.int64), PG)
            rec.check("rotmap.mixed_widths", lg.shape == eg.shape and np.array_equal(lg, eg) and np.array_equal(lp, ep), case, True,
                      expected=[O.show(g, p) for g, p in zip(eg[:6], ep[:6])], observed="shape %r" % (lg.shape,))


def run_rand(shard, rec, B):
    rng = gen.rng_for(rec)
    if B.name == "np" and not shard.get("forms"):
        _rotmap_mixed_widths(rec, B, rng)
    Ns = [3, 4, 5, 6, 8, 11, 16, 25, 40] if B.name == "np" else [3, 4, 5, 8, 12]
    for t in range(shard["n"]):
        N = Ns[t % len(Ns)]
        k = int(rng.integers(0, 3))
        qubits = list(range(N)) if k == 0 else gen.rand_subset(rng, N, int(rng.integers(1, N + 1)))
        G = gen.rand_string(rng, len(qubits))
        PG = 2 * int(rng.integers(2))
        L = int(rng.integers(1, 9))
        gs = gen.rand_list(rng, L, N)
        ps = rng.integers(0, 4, L)
        check_all_kinds(rec, B, G, PG, qubits, N, gs, ps, rng, dense=(N <= 3))
        if t % 4 == 0 and N <= 16:
            check_map_state(rec, B, G, PG, qubits, N, rng)
    # ONE generator object over a history: used, changed by its owner (in-place rotation / map, a written bit, a rebound string) so
    # that it reaches other qubits, used again (unmasked and masked); and operands / generators parsed from a spelling, edited in
    # place, and the same spelling parsed again
    lib = B.paulialg
    for t in range(max(20, shard["n"] // 8)):
        N = int(rng.integers(2, 8))
        gs, ps = gen.rand_list(rng, int(rng.integers(2, 7)), N), None
        ps = rng.integers(0, 4, len(gs))
        G = gen.sparse_string(rng, N, int(rng.integers(1, max(2, N // 2 + 1))))
        PG = 2 * int(rng.integers(2))
        Gobj = B.Pauli(G.copy(), PG)
        cur = (G.copy(), PG)
        hist = []
        for step in range(4):
            PL = B.PauliList(gs.copy(), ps.copy())
            ok, _ = rec.attempt("rot.live_generator", [N, hist], lambda: PL.rotate_by(Gobj))
            if not ok:
                break
            lg, lp = B.gsps(PL)
            eg, ep = O.rot_image(cur[0], cur[1], gs, ps)
            rec.check("rot.live_generator", np.array_equal(lg, eg) and np.array_equal(lp, ep), {"N": N, "generator_now": O.show(*cur), "history": list(hist),
                      "ops": [O.show(a, b) for a, b in zip(gs, ps)]}, True, expected=[O.show(a, b) for a, b in zip(eg, ep)], observed=[O.show(a, b) for a, b in zip(lg, lp)])
            how = int(rng.integers(4))
            if how == 0:
                for _ in range(30):
                    H_ = gen.rand_nonid(rng, N)
                    if O.anti(H_, cur[0]):
                        break
                Gobj.rotate_by(B.Pauli(H_.copy(), 0))
                ng, np_ = O.rot_image(H_, 0, cur[0][None, :], np.array([cur[1]]))
                cur = (ng[0], int(np_[0]))
                hist.append("generator.rotate_by " + O.g2s(H_))
            elif how == 1:
                m = O.random_map(rng, N)
                Gobj.transform_by(B.Map(m[0].copy(), m[1].copy()))
                ng, np_ = O.map_image_list(m[0], m[1], cur[0][None, :], np.array([cur[1]]))
                cur = (ng[0], int(np_[0]))
                hist.append("generator.transform_by")
            elif how == 2 and B.name == "np":
                k = int(rng.integers(N))
                ng = cur[0].copy()
                ng[2 * k] ^= 1                       # one bit written (sigma[g] stays Hermitian for every g in this convention)
                if not ng.any():
                    break
                Gobj.g[2 * k] = ng[2 * k]
                cur = (ng, cur[1])
                hist.append("generator.g[%d] written" % (2 * k))
            else:
                ng = gen.rand_nonid(rng, N)
                Gobj.g = B.arr(ng.copy())
                cur = (ng, cur[1])
                hist.append("generator.g rebound")
        # spellings
        txt = ('-' if PG == 2 else '') + O.g2s(G)
        ok, P1 = rec.attempt("rot.parsed", txt, lambda: lib.pauli(txt))
        if ok:
            for _ in range(30):
                H_ = gen.rand_nonid(rng, N)
                if O.anti(H_, G):
                    break
            ok, _ = rec.attempt("rot.parsed", txt, lambda: P1.rotate_by(B.Pauli(H_.copy(), 2)))
            ok, P2 = rec.attempt("rot.parsed", txt, lambda: lib.pauli(txt))
            if ok:
                g2, p2 = B.gp(P2)
                rec.check("rot.parsed", np.array_equal(g2, G) and p2 == PG, [txt, "parsed again after the first object was rotated in place"], True,
                          expected=O.show(G, PG), observed=O.show(g2, p2))
                PL = B.PauliList(gs.copy(), ps.copy())
                ok, _ = rec.attempt("rot.parsed", txt, lambda: PL.rotate_by(lib.pauli(txt)))
                if ok:
                    lg, lp = B.gsps(PL)
                    eg, ep = O.rot_image(G, PG, gs, ps)
                    rec.check("rot.parsed", np.array_equal(lg, eg) and np.array_equal(lp, ep), [txt, "as generator"], True)
    # receivers that the library itself hands out as views / derived arrays: slices of a list, the output of inverse()
    for t in range(max(20, shard["n"] // 10)):
        N = int(rng.integers(2, 7))
        L = int(rng.integers(4, 10))
        gs = gen.rand_list(rng, L, N)
        ps = rng.integers(0, 4, L)
        G, PG = gen.rand_nonid(rng, N), 2 * int(rng.integers(2))
        base = B.PauliList(gs.copy(), ps.copy())
        for nm, sl in (("[::2]", slice(None, None, 2)), ("[1:]", slice(1, None)), ("[::-1]", slice(None, None, -1)), ("[idx]", np.array([L - 1, 0, 2]))):
            if B.name == "torch" and nm == "[::-1]":
                continue
            ok, V = rec.attempt("rot.derived", [nm, N], lambda: base[sl])
            if not ok:
                continue
            vg, vp = B.gsps(V)
            eg, ep = O.rot_image(G, PG, vg, vp)
            ok, _ = rec.attempt("rot.derived", [nm, N], lambda: V.rotate_by(B.Pauli(G, PG)))
            if ok:
                lg, lp = B.gsps(V)
                rec.check("rot.derived", np.array_equal(lg, eg) and np.array_equal(lp, ep), {"view": nm, "G": O.show(G, PG), "ops": [O.show(a, b) for a, b in zip(vg, vp)]}, True,
                          expected=[O.show(a, b) for a, b in zip(eg, ep)], observed=[O.show(a, b) for a, b in zip(lg, lp)])
        mg, mp = O.random_map(rng, N)
        ok, Mi = rec.attempt("rot.derived", ["inverse", N], lambda: B.Map(mg.copy(), mp.copy()).inverse())
        if ok:
            vg, vp = B.gsps(Mi)
            eg, ep = O.rot_image(G, PG, vg, vp)
            ok, _ = rec.attempt("rot.derived", ["inverse", N], lambda: Mi.rotate_by(B.Pauli(G, PG)))
            if ok:
                lg, lp = B.gsps(Mi)
                rec.check("rot.derived", np.array_equal(lg, eg) and np.array_equal(lp, ep), {"view": "inverse()", "G": O.show(G, PG), "map": [O.show(a, b) for a, b in zip(vg, vp)]}, True)
            m2 = O.random_map(rng, N)
            ok, _ = rec.attempt("rot.derived", ["inverse.transform", N], lambda: Mi.transform_by(B.Map(m2[0].copy(), m2[1].copy())))
            if ok:
                xg, xp = O.map_image_list(m2[0], m2[1], eg, ep)
                lg, lp = B.gsps(Mi)
                rec.check("rot.derived.transform", np.array_equal(lg, xg) and np.array_equal(lp, xp), {"view": "inverse() then rotate then transform", "N": N}, True)
    # generators that are themselves library results (an element of a list, a product): used several times in a row,
    # the generator and the list it came from must stay what they were
    for t in range(max(20, shard["n"] // 20)):
        N = int(rng.integers(1, 6))
        Lg = int(rng.integers(2, 5))
        ggs = np.stack([gen.rand_nonid(rng, N) for _ in range(Lg)])
        gps = 2 * rng.integers(0, 2, Lg)
        src = B.PauliList(ggs.copy(), gps.copy())
        k = int(rng.integers(Lg))
        how = int(rng.integers(2))
        if how == 0:
            Gobj, G, PG = src[k], ggs[k], int(gps[k])
        else:
            a_, b_ = gen.rand_string(rng, N), gen.rand_string(rng, N)
            xg, xp = O.mul(a_, 0, b_, 0)
            if not xg.any() or int(xp) % 2:
                continue
            Gobj, G, PG = B.Pauli(a_, 0) @ B.Pauli(b_, 0), xg, int(xp)
        gs, ps = gen.rand_list(rng, 6, N), rng.integers(0, 4, 6)
        PL = B.PauliList(gs.copy(), ps.copy())
        eg, ep = gs, ps
        good = True
        for rep in range(4):
            ok, _ = rec.attempt("rot.derived_generator", [N, how, rep], lambda: PL.rotate_by(Gobj))
            if not ok:
                good = None
                break
            eg, ep = O.rot_image(G, PG, eg, ep)
            lg, lp = B.gsps(PL)
            if not (np.array_equal(lg, eg) and np.array_equal(lp, ep)):
                good = False
                break
        if good is not None:
            gg, gp_ = B.gp(Gobj)
            sg, sp = B.gsps(src)
            rec.check("rot.derived_generator", good and np.array_equal(gg, G) and gp_ == PG % 4 and np.array_equal(sg, ggs) and np.array_equal(sp, gps % 4),
                      {"N": N, "generator_from": ["list element", "product"][how], "G": O.show(G, PG), "rep": rep}, True,
                      expected="4 rotations by the same generator object = identity; generator and its source list unchanged",
                      observed={"generator_now": O.show(gg, gp_), "list_now": [O.show(a, b) for a, b in zip(sg, sp)]})
    # unusual but legal argument forms: zero-length lists, masks given as python lists / tuples of bools
    for t in range(12):
        N = int(rng.integers(1, 6))
        G, PG = gen.rand_nonid(rng, N), 2 * int(rng.integers(2))
        E = B.PauliList(np.zeros((0, 2 * N), dtype=np.int64), np.zeros(0, dtype=np.int64))
        ok, R = rec.attempt("rot.empty", [N], lambda: E.rotate_by(B.Pauli(G, PG)))
        if ok:
            rec.check("rot.empty", B.np(E.gs).shape == (0, 2 * N) and B.np(E.ps).shape == (0,), ["empty", N], False)
        if B.name == "np" and N >= 2:
            qs = gen.rand_subset(rng, N, int(rng.integers(1, N)))
            Gs = gen.rand_nonid(rng, len(qs))
            gs, ps = gen.rand_list(rng, 5, N), rng.integers(0, 4, 5)
            eg, ep = _expected(Gs, PG, gs, ps, qs, N)
            for form, mk in (("list", [bool(q in qs) for q in range(N)]), ("tuple", tuple(bool(q in qs) for q in range(N))), ("np.bool_", _mask(qs, N))):
                PL = B.PauliList(gs.copy(), ps.copy())
                ok, _ = rec.attempt("rot.maskform." + form, [N, qs], lambda: PL.rotate_by(B.Pauli(Gs, PG), mask=mk))
                if ok:
                    lg, lp = B.gsps(PL)
                    rec.check("rot.maskform." + form, np.array_equal(lg, eg) and np.array_equal(lp, ep), {"N": N, "qubits": qs, "form": form}, True)
            Em = B.PauliList(np.zeros((0, 2 * N), dtype=np.int64), np.zeros(0, dtype=np.int64))
            ok, _ = rec.attempt("rot.empty", [N, "mask"], lambda: Em.rotate_by(B.Pauli(Gs, PG), mask=_mask(qs, N)))
            if ok:
                rec.check("rot.empty", B.np(Em.gs).shape == (0, 2 * N), ["empty.mask", N], False)
    # rotation sequences undone in reverse order, on states and lists
    for t in range(max(20, shard["n"] // 30)):
        N = int(rng.integers(2, 9))
        tg, tp, r = O.random_tableau(rng, N)
        S = B.State(tg.copy(), tp.copy(), r)
        seq = []
        og, op = tg.copy(), tp.copy()
        for k in range(int(rng.integers(1, 51))):
            qubits = gen.rand_subset(rng, N, int(rng.integers(1, N + 1)))
            G = gen.rand_nonid(rng, len(qubits))
            PG = 2 * int(rng.integers(2))
            seq.append((G, PG, qubits))
            kw = {} if len(qubits) == N else {"mask": _lib_mask(B, qubits, N)}
            ok, _ = rec.attempt("rot.seq", [N, k], lambda: S.rotate_by(B.Pauli(G, PG), **kw))
            if not ok:
                break
            og, op = O.rot_image(O.embed_string(G, qubits, N), PG, og, op)
        lg, lp, lr = B.state(S)
        rec.check("rot.seq", np.array_equal(lg, og) and np.array_equal(lp, op) and lr == r, ["seq", N, len(seq), t], True)
        for (G, PG, qubits) in reversed(seq):
            kw = {} if len(qubits) == N else {"mask": _lib_mask(B, qubits, N)}
            S.rotate_by(B.Pauli(G, (PG + 2) % 4), **kw)
        lg, lp, lr = B.state(S)
        rec.check("rot.undo", np.array_equal(lg, tg) and np.array_equal(lp, tp % 4) and lr == r, ["seq-undo", N, len(seq), t], True)


def run_big(shard, rec, B):
    """wide registers and long lists (thresholds of machine words / bytes); table oracle only."""
    rng = gen.rng_for(rec)
    for t in range(shard["n"]):
        for N in gen.BIG_NS:
            for masked in (False, True):
                qubits = list(range(N)) if not masked else gen.rand_subset(rng, N, int(rng.integers(1, N)))
                G = gen.sparse_string(rng, len(qubits)) if rng.integers(2) else gen.rand_nonid(rng, len(qubits))
                PG = 2 * int(rng.integers(2))
                L = [6, gen.BIG_LS[int(rng.integers(len(gen.BIG_LS)))]][int(rng.integers(2))]
                gs = rng.integers(0, 2, (L, 2 * N))
                gs[0] = gen.sparse_string(rng, N)
                ps = rng.integers(0, 4, L)
                check_all_kinds(rec, B, G, PG, qubits, N, gs, ps, rng, dense=False)
            if N <= 70:
                check_map_state(rec, B, gen.rand_nonid(rng, N), 2 * int(rng.integers(2)), list(range(N)), N, rng)
        if t == 0:
            # very long lists on few qubits, and tableaux / maps with >= 1024 rows (N >= 512)
            for L in (gen.HUGE_LS if B.name == "np" else [4097, 5000, 9000, 65537, 131073, 262145, 300001, 524289, 1048577]):
                N = int(rng.integers(2, 5))
                gs = rng.integers(0, 2, (L, 2 * N))
                ps = rng.integers(0, 4, L)
                for masked in (False, True):
                    qubits = list(range(N)) if not masked else gen.rand_subset(rng, N, N - 1)
                    check_all_kinds(rec, B, gen.rand_nonid(rng, len(qubits)), 2 * int(rng.integers(2)), qubits, N, gs, ps, rng, dense=False)
            for N in (gen.HUGE_NS if B.name == "np" else [256, 513]):
                G, PG = gen.rand_nonid(rng, N), 2 * int(rng.integers(2))
                tg, tp, r = O.random_tableau(rng, N, nrot=6)
                eg, ep = O.rot_image(G, PG, tg, tp)
                S = B.State(tg.copy(), tp.copy(), r)
                ok, _ = rec.attempt("rot.state", ["huge", N], lambda: S.rotate_by(B.Pauli(G, PG)))
                if ok:
                    lg, lp, lr = B.state(S)
                    rec.check("rot.state", np.array_equal(lg, eg) and np.array_equal(lp, ep) and lr == r, ["huge", N, O.show(G, PG)[:40]], True)
                ok, M = rec.attempt("rotmap", ["huge", N], lambda: B.stabilizer.clifford_rotation_map(B.Pauli(G, PG)))
                if ok:
                    mg, mp = B.gsps(M)
                    xg, xp = O.map_of_rotation(G, PG)
                    rec.check("rotmap", np.array_equal(mg, xg) and np.array_equal(mp, xp), ["huge", N], True)
