"""C11 Named gates are the textbook Cliffords; C(0..23) enumerates the 1-qubit group."""
import itertools

import numpy as np

from .. import oracle as O
from .. import gen

RULE = ("the finite gate tables exhaustively (H,S,X,Y,Z, CNOT both orientations, C(0..23)); every placement in registers "
        "N=1..4 (quick) / N<=8 (thorough) acting on all strings x 4 phases for N<=3 and sampled operands beyond; dense "
        "textbook unitaries as a second oracle; closure / inverse / distinctness of the 24 indexed gates; rejection of bad "
        "indices and wrong qubit counts; non-trivial = operand has support on the gate's qubits")
ASSUMPTIONS = ["'sends A to B' is read as gate.forward(A) == B (for S: forward(X)=Y)",
               "textbook unitaries H=(X+Z)/sqrt2, S=diag(1,i), CNOT=|0><0|xI+|1><1|xX written as literals in the check"]
REQUIRED_SUBS = ["table.H", "table.S", "table.X", "table.Y", "table.Z", "table.CNOT", "place.*", "dense.*", "C.distinct",
                 "C.valid", "C.closed", "C.inverse", "reject.index", "reject.count"]

# textbook conjugation tables: images of (X, Z) as signed letters
TABLE1 = {
    "H": (("Z", 0), ("X", 0)),
    "S": (("Y", 0), ("Z", 0)),
    "X": (("X", 0), ("Z", 2)),
    "Y": (("X", 2), ("Z", 2)),
    "Z": (("X", 2), ("Z", 0)),
}
SQ2 = np.sqrt(2)
UNITARY1 = {
    "H": np.array([[1, 1], [1, -1]], dtype=complex) / SQ2,
    "S": np.array([[1, 0], [0, 1j]], dtype=complex),
    "X": O.SX, "Y": O.SY, "Z": O.SZ,
}


def shards(tier):
    q = tier == "quick"
    return [
        {"name": "tables.np.interp", "mode": "interp", "backend": "np", "fn": "tables", "Nmax": 4 if q else 6},
        {"name": "tables.np.jit", "mode": "jit", "backend": "np", "fn": "tables", "Nmax": 4 if q else 8},
        {"name": "cgroup.np.interp", "mode": "interp", "backend": "np", "fn": "cgroup"},
        {"name": "cgroup.np.jit", "mode": "jit", "backend": "np", "fn": "cgroup"},
    ]


def run(shard, rec, B):
    globals()["run_" + shard["fn"]](shard, rec, B)


def textbook_map(name, qubits, N):
    """oracle map of the named gate placed on `qubits` (as given, control first for CNOT) in an N-qubit register."""
    gs, ps = O.map_identity(N)
    if name == "CNOT":
        c, t = qubits
        gs[2 * c, 2 * t] = 1          # X_c -> X_c X_t
        gs[2 * t + 1, 2 * c + 1] = 1  # Z_t -> Z_c Z_t
        return gs, ps
    (xl, xp), (zl, zp) = TABLE1[name]
    q = qubits[0]
    gs[2 * q] = O.embed_string(O.s2g(xl), [q], N)
    gs[2 * q + 1] = O.embed_string(O.s2g(zl), [q], N)
    ps[2 * q], ps[2 * q + 1] = xp, zp
    return gs, ps


def dense_gate(name, qubits, N):
    if name == "CNOT":
        c, t = qubits
        D = 2 ** N
        U = np.zeros((D, D), dtype=complex)
        for b in range(D):
            bits = [(b >> (N - 1 - k)) & 1 for k in range(N)]
            if bits[c]:
                bits[t] ^= 1
            b2 = int(''.join(map(str, bits)), 2)
            U[b2, b] = 1
        return U
    m = np.array([[1]], dtype=complex)
    for k in range(N):
        m = np.kron(m, UNITARY1[name] if k == qubits[0] else O.I2)
    return m


def apply_gate(rec, B, sub, gate, name, qubits, N, gs, ps, dense):
    eg_map, ep_map = textbook_map(name, qubits, N)
    eg, ep = O.map_image_list(eg_map, ep_map, gs, ps)
    case = {"gate": name, "qubits": list(qubits), "N": N, "ops": [O.show(g, p) for g, p in zip(gs[:6], ps[:6])], "L": len(gs)}
    sup = [c for q in qubits for c in (2 * q, 2 * q + 1)]
    nt = bool(np.any(gs[:, sup]))
    PL = B.PauliList(gs.copy(), ps.copy())
    ok, _ = rec.attempt(sub, case, lambda: gate.forward(PL))
    if not ok:
        return
    lg, lp = B.gsps(PL)
    rec.check(sub, np.array_equal(lg, eg) and np.array_equal(lp, ep), case, nt,
              expected=[O.show(g, p) for g, p in zip(eg[:8], ep[:8])], observed=[O.show(g, p) for g, p in zip(lg[:8], lp[:8])])
    out = [c for c in range(2 * N) if c not in sup]
    rec.check("place.untouched", np.array_equal(lg[:, out], gs[:, out]), case, nt)
    if dense and N <= 3:
        U = dense_gate(name, qubits, N)
        good = True
        for j in range(len(gs)):
            if not O.close(U @ O.dense(gs[j], ps[j]) @ U.conj().T, O.dense(lg[j], lp[j])):
                good = False
                break
        rec.check("dense." + name, good, case, nt)
    ok, _ = rec.attempt("undo." + name, case, lambda: gate.backward(PL))
    if ok:
        bg, bp = B.gsps(PL)
        rec.check("undo." + name, np.array_equal(bg, gs) and np.array_equal(bp, ps % 4), case, nt)


def run_tables(shard, rec, B):
    C = B.circuit
    rng = gen.rng_for(rec)
    ctor = {"H": C.H, "S": C.S, "X": C.X, "Y": C.Y, "Z": C.Z, "CNOT": C.CNOT}
    # bare tables: forward_map of the constructed gate and action on the generators of a minimal register
    for name in ("H", "S", "X", "Y", "Z"):
        ok, gate = rec.attempt("table." + name, name, lambda: ctor[name](0))
        if not ok:
            continue
        eg, ep = textbook_map(name, [0], 1)
        fg, fp = B.gsps(gate.forward_map)
        rec.check("table." + name, np.array_equal(fg, eg) and np.array_equal(fp, ep) and O.map_valid(fg, fp), name, True,
                  expected=[O.show(g, p) for g, p in zip(eg, ep)], observed=[O.show(g, p) for g, p in zip(fg, fp)])
        S1 = O.all_strings(1)
        apply_gate(rec, B, "table." + name, gate, name, [0], 1, np.repeat(S1, 4, 0), np.tile(np.arange(4), 4), True)
    for (c, t) in ((0, 1), (1, 0)):
        ok, gate = rec.attempt("table.CNOT", [c, t], lambda: C.CNOT(c, t))
        if ok:
            S2 = O.all_strings(2)
            rec.check("table.CNOT", O.map_valid(*B.gsps(gate.forward_map)), [c, t], True)
            apply_gate(rec, B, "table.CNOT", gate, "CNOT", [c, t], 2, np.repeat(S2, 4, 0), np.tile(np.arange(4), 16), True)
    # placements
    for N in range(1, shard["Nmax"] + 1):
        S = O.all_strings(N) if N <= 3 else None
        places = [("H", (q,)) for q in range(N)] + [("S", (q,)) for q in range(N)] + [("X", (q,)) for q in range(N)] + \
                 [("Y", (q,)) for q in range(N)] + [("Z", (q,)) for q in range(N)] + \
                 [("CNOT", (c, t)) for c in range(N) for t in range(N) if c != t]
        rec.space("placements of named gates in N=%d" % N, len(places))
        for name, qubits in places:
            ok, gate = rec.attempt("place." + name, [name, qubits], lambda: ctor[name](*qubits))
            if not ok:
                continue
            if S is not None:
                gs, ps = np.repeat(S, 4, 0), np.tile(np.arange(4), len(S))
            else:
                gs = gen.rand_list(rng, 40, N)
                ps = rng.integers(0, 4, 40)
            apply_gate(rec, B, "place." + name, gate, name, list(qubits), N, gs, ps, dense=True)
            # states through the gate: rows transformed, r kept
            tg, tp, r = O.random_tableau(rng, N)
            St = B.State(tg.copy(), tp.copy(), r)
            ok, _ = rec.attempt("place.state", [name, qubits, N], lambda: gate.forward(St))
            if ok:
                lg, lp, lr = B.state(St)
                xg, xp = O.map_image_list(*textbook_map(name, list(qubits), N), tg, tp)
                rec.check("place.state", np.array_equal(lg, xg) and np.array_equal(lp, xp) and lr == r, [name, list(qubits), N, r], True)
    # a gate that has been used backward / compiled (derived maps cached) is copied: the copy is the same textbook gate
    for name in ("H", "S", "X", "Y", "Z"):
        for prep in ("backward", "compile"):
            gate = ctor[name](1)
            S2 = O.all_strings(2)
            PL = B.PauliList(np.repeat(S2, 4, 0), np.tile(np.arange(4), 16))
            if prep == "backward":
                gate.backward(PL)
            else:
                gate.compile()
            ok, g2 = rec.attempt("table.copy." + name, [name, prep], lambda: gate.copy())
            if ok:
                apply_gate(rec, B, "table.copy." + name, g2, name, [1], 2, np.repeat(S2, 4, 0), np.tile(np.arange(4), 16), True)
    for (c, t) in ((0, 1), (1, 0)):
        gate = C.CNOT(c, t)
        gate.compile()
        ok, g2 = rec.attempt("table.copy.CNOT", [c, t], lambda: gate.copy())
        if ok:
            S2 = O.all_strings(2)
            apply_gate(rec, B, "table.copy.CNOT", g2, "CNOT", [c, t], 2, np.repeat(S2, 4, 0), np.tile(np.arange(4), 16), True)
    # a gate applied to its OWN table (the receiver is the argument): the table of the gate squared
    for name in ("H", "S", "X", "Y", "Z"):
        gate = ctor[name](0)
        eg, ep = textbook_map(name, [0], 1)
        sq = O.map_compose(eg, ep, eg, ep)
        ok, R = rec.attempt("table.self." + name, name, lambda: gate.forward(gate.forward_map))
        if ok:
            fg, fp = B.gsps(gate.forward_map)
            rec.check("table.self." + name, np.array_equal(fg, sq[0]) and np.array_equal(fp, sq[1] % 4), name, True,
                      expected=[O.show(a, b) for a, b in zip(sq[0], sq[1])], observed=[O.show(a, b) for a, b in zip(fg, fp)])
    for (c, t) in ((0, 1), (1, 0)):
        gate = C.CNOT(c, t)
        ok, R = rec.attempt("table.self.CNOT", [c, t], lambda: gate.forward(gate.forward_map))
        if ok:
            fg, fp = B.gsps(gate.forward_map)
            rec.check("table.self.CNOT", np.array_equal(fg, np.eye(4, dtype=np.int64)) and not fp.any(), [c, t], True)
    # ONE gate object applied to registers of several sizes, in ascending, descending and mixed order
    for name, qubits in [(nm, (q,)) for nm in ("H", "S", "X", "Y", "Z") for q in (0, 1)] + [("CNOT", (0, 1)), ("CNOT", (1, 0))]:
        for order in ((2, 3, 4, 2), (4, 3, 2), (3, 2, 3, 5)):
            gate = ctor[name](*qubits)
            for N in order:
                gs = gen.rand_list(rng, 12, N)
                gs[0, 2 * qubits[0]:2 * qubits[0] + 2] = (1, 1)
                apply_gate(rec, B, "place.resized." + name, gate, name, list(qubits), N, gs, rng.integers(0, 4, 12), dense=False)
    # numpy-integer qubit labels behave like python integers
    for name in ("H", "S", "X", "Y", "Z"):
        gate = ctor[name](np.int64(1))
        S2 = O.all_strings(2)
        apply_gate(rec, B, "place." + name, gate, name, [1], 2, np.repeat(S2, 4, 0), np.tile(np.arange(4), 16), True)
    for (c, t) in ((0, 1), (1, 0)):
        gate = C.CNOT(np.int64(c), np.int32(t))
        S2 = O.all_strings(2)
        apply_gate(rec, B, "place.CNOT", gate, "CNOT", [c, t], 2, np.repeat(S2, 4, 0), np.tile(np.arange(4), 16), True)
    # wrong qubit counts are rejected
    bad = [("H", (0, 0)), ("S", (1, 1, 1)), ("X", (2, 2)), ("CNOT", (0, 1, 1)), ("CNOT", (2, 2, 0)), ("CNOT", (1, 1, 1)),
           ("H", ()), ("H", (0, 1)), ("S", (0, 1)), ("X", (0, 1, 2)), ("Y", ()), ("Z", (1, 2)), ("CNOT", (0,)), ("CNOT", (0, 1, 2)), ("CNOT", ())]
    for name, qubits in bad:
        try:
            ctor[name](*qubits)
            got = "accepted"
        except ValueError:
            got = "ValueError"
            rec.refusal("ValueError:wrong qubit count")
        except Exception as e:
            got = type(e).__name__
        rec.check("reject.count", got == "ValueError", [name, list(qubits)], True, expected="ValueError", observed=got)


def run_cgroup(shard, rec, B):
    C = B.circuit
    rng = gen.rng_for(rec)
    maps = []
    for k in range(24):
        ok, gate = rec.attempt("C.ctor", k, lambda: C.C(k, 0))
        if not ok:
            return
        fg, fp = B.gsps(gate.forward_map)
        maps.append((fg, fp))
        rec.check("C.valid", O.map_valid(fg, fp) and gate.qubits == (0,), k, True, observed=[O.show(g, p) for g, p in zip(fg, fp)])
        # applied to its own table: the square of the element (still one of the 24)
        g2 = B.circuit.C(k, 0)
        ok, _ = rec.attempt("C.self", k, lambda: g2.forward(g2.forward_map))
        if ok:
            sg, sp = B.gsps(g2.forward_map)
            sq = O.map_compose(fg, fp, fg, fp)
            rec.check("C.self", np.array_equal(sg, sq[0]) and np.array_equal(sp, sq[1] % 4), k, True,
                      expected=[O.show(a, b) for a, b in zip(sq[0], sq[1])], observed=[O.show(a, b) for a, b in zip(sg, sp)])
    keys = [(tuple(g.reshape(-1).tolist()), tuple(p.tolist())) for g, p in maps]
    for i in range(24):
        for j in range(i + 1, 24):
            rec.check("C.distinct", keys[i] != keys[j], [i, j], True, expected="different gates",
                      observed="C(%d) == C(%d)" % (i, j) if keys[i] == keys[j] else "different")
    all24 = set((tuple(g.reshape(-1).tolist()), tuple(p.tolist())) for g, p in O.all_maps(1))
    rec.check("C.covers_group", set(keys) == all24, "set of 24", True, observed="%d distinct of 24" % len(set(keys)))
    kset = set(keys)
    rec.space("ordered pairs of indexed gates (closure through the library's compose)", 576)
    for i in range(24):
        gi = C.C(i, 0)
        ok, inv = rec.attempt("C.inverse", i, lambda: gi.forward_map.inverse())
        if ok:
            g, p = B.gsps(inv)
            rec.check("C.inverse", (tuple(g.reshape(-1).tolist()), tuple(p.tolist())) in kset, i, True)
        for j in range(24):
            gj = C.C(j, 0)
            ok, comp = rec.attempt("C.closed", [i, j], lambda: gi.forward_map.compose(gj.forward_map))
            if ok:
                g, p = B.gsps(comp)
                rec.check("C.closed", (tuple(g.reshape(-1).tolist()), tuple(p.tolist())) in kset, [i, j], True)
    # action of each indexed gate at each placement equals its own table (oracle image)
    for N in (1, 2, 3):
        S = O.all_strings(N)
        gs, ps = np.repeat(S, 4, 0), np.tile(np.arange(4), len(S))
        for k in range(24):
            for q in range(N):
                gate = C.C(k, q)
                eg_map, ep_map = O.map_embed(maps[k][0], maps[k][1], [q], N)
                eg, ep = O.map_image_list(eg_map, ep_map, gs, ps)
                PL = B.PauliList(gs.copy(), ps.copy())
                ok, _ = rec.attempt("C.place", [k, q, N], lambda: gate.forward(PL))
                if ok:
                    lg, lp = B.gsps(PL)
                    rec.check("C.place", np.array_equal(lg, eg) and np.array_equal(lp, ep), [k, q, N], True)
                    ok, _ = rec.attempt("C.undo", [k, q, N], lambda: gate.backward(PL))
                    if ok:
                        bg, bp = B.gsps(PL)
                        rec.check("C.undo", np.array_equal(bg, gs) and np.array_equal(bp, ps % 4), [k, q, N], True)
    for k in range(24):    # numpy integers are integers
        ok, gate = rec.attempt("C.npint", k, lambda: C.C(np.int64(k), np.int64(1)))
        if ok:
            fg, fp = B.gsps(gate.forward_map)
            PL = B.PauliList(np.eye(4, dtype=np.int64), np.zeros(4, dtype=np.int64))
            gate.forward(PL)
            eg, ep = O.map_embed(maps[k][0], maps[k][1], [1], 2)
            lg, lp = B.gsps(PL)
            rec.check("C.npint", np.array_equal(fg, maps[k][0]) and np.array_equal(fp, maps[k][1]) and np.array_equal(lg, eg) and np.array_equal(lp, ep % 4), k, True)
    for k in (24, 25, -1, -24, 100, 2.5, None):
        try:
            C.C(k, 0)
            got = "accepted"
        except ValueError:
            got = "ValueError"
            rec.refusal("ValueError:index outside 0..23")
        except Exception as e:
            got = type(e).__name__
        rec.check("reject.index", got == "ValueError", repr(k), True, expected="ValueError", observed=got)
    for k in range(24):
        gate = C.C(k, 0)
        PL = B.PauliList(np.eye(2, dtype=np.int64), np.zeros(2, dtype=np.int64))
        gate.backward(PL)
        g2 = gate.copy()
        P2 = B.PauliList(np.eye(2, dtype=np.int64), np.zeros(2, dtype=np.int64))
        g2.forward(P2)
        lg, lp = B.gsps(P2)
        rec.check("C.copy", np.array_equal(lg, maps[k][0]) and np.array_equal(lp, maps[k][1] % 4), k, True,
                  expected=[O.show(a, b) for a, b in zip(*maps[k])], observed=[O.show(a, b) for a, b in zip(lg, lp)])
    for qubits in ((), (0, 1), (0, 1, 2), (1, 1), (0, 0, 0)):
        try:
            C.C(3, *qubits)
            got = "accepted"
        except ValueError:
            got = "ValueError"
        except Exception as e:
            got = type(e).__name__
        rec.check("reject.count", got == "ValueError", ["C", list(qubits)], True, expected="ValueError", observed=got)
