"""C04 Clifford maps form a group under compose and inverse."""
import itertools

import numpy as np

from .. import oracle as O
from .. import gen
from ..monitor import snapshot, snap_diff, shares_memory

RULE = ("N=1: all 576 ordered pairs and all 13824 triples of the 24 maps; N=2: all 11520 maps (oracle-enumerated) for the "
        "inverse laws on both sides and composed with a generating set (H,S on each qubit, CNOT both ways, sign flips) "
        "plus random partners; random oracle-built maps N=3..8; every result also compared with the oracle's own "
        "composition / inverse; non-trivial = no operand is the identity map")
ASSUMPTIONS = ["operands are valid maps; composition a.compose(b) means 'a first, then b'",
               "oracle composition = images of a's rows under b by table products; inverse by GF(2) inverse + phase solve"]
REQUIRED_SUBS = ["assoc", "seq_vs_compose", "neutral.l", "neutral.r", "inv.l", "inv.r", "inv.antihom", "vs_oracle.compose",
                 "vs_oracle.inverse", "immutable", "fresh", "z2inv", "history.inverse", "history.compose", "history.result_edit", "retained"]


def shards(tier):
    q = tier == "quick"
    out = [
        {"name": "n1.np.jit", "mode": "jit", "backend": "np", "fn": "n1"},
        {"name": "n1.np.interp", "mode": "interp", "backend": "np", "fn": "n1", "triples": 2000 if q else 13824},
        {"name": "n1.torch", "mode": "jit", "backend": "torch", "fn": "n1", "triples": 600 if q else 13824},
        {"name": "rand.np.jit", "mode": "jit", "backend": "np", "fn": "rand", "n": 500 if q else 40000},
        {"name": "forms.np.jit", "mode": "jit", "backend": "np", "fn": "rand", "n": 120 if q else 5000, "forms": 1},
        {"name": "frozen.np.jit", "mode": "jit", "backend": "np", "fn": "frozen", "n": 150 if q else 5000},
        {"name": "frozen.np.interp", "mode": "interp", "backend": "np", "fn": "frozen", "n": 60 if q else 1500},
        {"name": "rand.np.interp", "mode": "interp", "backend": "np", "fn": "rand", "n": 100 if q else 3000},
        {"name": "rand.torch", "mode": "jit", "backend": "torch", "fn": "rand", "n": 100 if q else 4000},
        {"name": "big.np.jit", "mode": "jit", "backend": "np", "fn": "big", "n": 1 if q else 12},
        {"name": "big.torch", "mode": "jit", "backend": "torch", "fn": "big", "n": 1 if q else 3},
        {"name": "forms.torch", "mode": "jit", "backend": "torch", "fn": "rand", "n": 50 if q else 1500, "forms": 1},
        {"name": "n2.torch", "mode": "jit", "backend": "torch", "fn": "n2", "lo": 0, "hi": 11520, "stride": 24 if q else 6},
        {"name": "n2.np.interp", "mode": "interp", "backend": "np", "fn": "n2", "lo": 0, "hi": 11520, "stride": 12 if q else 6},
    ]
    nsh = 8
    per = 11520 // nsh
    for k in range(nsh):
        out.append({"name": "n2.np.jit.%d" % k, "mode": "jit", "backend": "np", "fn": "n2", "lo": k * per, "hi": (k + 1) * per,
                    "partners": 3 if q else 10})
    return out


RETAINED = {}


def run(shard, rec, B):
    globals()["run_" + shard["fn"]](shard, rec, B)


def _eq(B, M, g, p):
    lg, lp = B.gsps(M)
    return lg.shape == np.asarray(g).shape and np.array_equal(lg, g) and np.array_equal(lp, np.asarray(p) % 4)


def _show(g, p):
    return [O.show(a, b) for a, b in zip(g, p)]


def _is_id(g, p):
    return np.array_equal(g, np.eye(len(g), dtype=np.int64)) and not np.any(np.asarray(p) % 4)


def pair_laws(rec, B, a, b, rng, heavy=True):
    """compose / inverse laws on one ordered pair of valid maps given as oracle arrays."""
    (ag, ap), (bg, bp) = a, b
    N = len(ag) // 2
    A, Bm = B.Map(ag.copy(), ap.copy()), B.Map(bg.copy(), bp.copy())
    case = {"a": _show(ag, ap), "b": _show(bg, bp)}
    nt = not _is_id(ag, ap) and not _is_id(bg, bp)
    sa, sb = snapshot(A), snapshot(Bm)
    ok, AB = rec.attempt("compose", case, lambda: A.compose(Bm))
    if not ok:
        return None
    xg, xp = O.map_compose(ag, ap, bg, bp)
    rec.check("vs_oracle.compose", _eq(B, AB, xg, xp), case, nt, expected=_show(xg, xp), observed=_show(*B.gsps(AB)))
    rec.check("immutable", not snap_diff(sa, snapshot(A)) and not snap_diff(sb, snapshot(Bm)), case, nt)
    rec.check("fresh", not shares_memory(AB, A) and not shares_memory(AB, Bm) and isinstance(AB, B.stabilizer.CliffordMap), case, nt)
    rec.check("valid.compose", O.map_valid(*B.gsps(AB)), case, nt)
    # applying a then b == applying a.compose(b)
    L = 6
    gs = gen.rand_list(rng, L, N)
    ps = rng.integers(0, 4, L)
    P1, P2 = B.PauliList(gs.copy(), ps.copy()), B.PauliList(gs.copy(), ps.copy())
    ok, _ = rec.attempt("seq_vs_compose", case, lambda: (P1.transform_by(A).transform_by(Bm), P2.transform_by(AB)))
    if ok:
        g1, p1 = B.gsps(P1)
        g2, p2 = B.gsps(P2)
        rec.check("seq_vs_compose", np.array_equal(g1, g2) and np.array_equal(p1, p2), case, nt,
                  expected=_show(g1, p1), observed=_show(g2, p2))
    if heavy:
        # (a.b)^-1 == b^-1 . a^-1
        ok, R = rec.attempt("inv.antihom", case, lambda: (AB.inverse(), Bm.inverse().compose(A.inverse())))
        if ok:
            g1, p1 = B.gsps(R[0])
            rec.check("inv.antihom", _eq(B, R[1], g1, p1), case, nt, expected=_show(g1, p1), observed=_show(*B.gsps(R[1])))
    return AB


def single_laws(rec, B, a, rng):
    ag, ap = a
    N = len(ag) // 2
    A = B.Map(ag.copy(), ap.copy())
    case = {"a": _show(ag, ap)}
    nt = not _is_id(ag, ap)
    ig, ip = O.map_identity(N)
    sa = snapshot(A)
    ok, I = rec.attempt("identity_map", N, lambda: B.stabilizer.identity_map(N))
    if ok:
        rec.check("identity_map", _eq(B, I, ig, ip), N, False)
        ok, R = rec.attempt("neutral", case, lambda: (I.compose(A), A.compose(I)))
        if ok:
            rec.check("neutral.l", _eq(B, R[0], ag, ap), case, nt, expected=case["a"], observed=_show(*B.gsps(R[0])))
            rec.check("neutral.r", _eq(B, R[1], ag, ap), case, nt, expected=case["a"], observed=_show(*B.gsps(R[1])))
    ok, Ai = rec.attempt("inverse", case, lambda: A.inverse())
    if not ok:
        return
    xg, xp = O.map_inverse(ag, ap)
    rec.check("vs_oracle.inverse", _eq(B, Ai, xg, xp), case, nt, expected=_show(xg, xp), observed=_show(*B.gsps(Ai)))
    # results handed out earlier (possibly for other maps of the same size) must still be what they were
    RET = RETAINED.setdefault((B.name, N), [])
    for (old_obj, og_, op_, what) in RET:
        rec.check("retained", _eq(B, old_obj, og_, op_), {"N": N, "result_of": what}, True, expected="unchanged result of an earlier call",
                  observed=_show(*B.gsps(old_obj))[:6])
    RET.append((Ai, xg.copy(), np.asarray(xp).copy(), "inverse"))
    del RET[:-3]
    rec.check("immutable", not snap_diff(sa, snapshot(A)), case, nt)
    rec.check("fresh", not shares_memory(Ai, A) and isinstance(Ai, B.stabilizer.CliffordMap), case, nt)
    ok, R = rec.attempt("inv.compose", case, lambda: (A.compose(Ai), Ai.compose(A), Ai.inverse()))
    if ok:
        rec.check("inv.r", _eq(B, R[0], ig, ip), case, nt, expected=_show(ig, ip), observed=_show(*B.gsps(R[0])))
        rec.check("inv.l", _eq(B, R[1], ig, ip), case, nt, expected=_show(ig, ip), observed=_show(*B.gsps(R[1])))
        rec.check("inv.involution", _eq(B, R[2], ag, ap), case, nt)
    # histories on ONE live object: inverse / compose, then the map is changed in place into another valid map
    # (rotation, transformation, embedding, sign write), then inverse / compose again - no stale state may survive
    Hm = B.Map(ag.copy(), ap.copy())
    cur = (ag.copy(), ap.copy())
    for step in range(3):
        ok, _ = rec.attempt("history.inverse", case, lambda: (Hm.inverse(), Hm.compose(Hm)))
        if not ok:
            break
        how = int(rng.integers(4))
        if how == 0:
            G, PG = gen.rand_nonid(rng, N), 2 * int(rng.integers(2))
            Hm.rotate_by(B.Pauli(G, PG))
            cur = O.rot_image(G, PG, cur[0], cur[1])
        elif how == 1:
            m2 = O.random_map(rng, N)
            Hm.transform_by(B.Map(m2[0].copy(), m2[1].copy()))
            cur = O.map_image_list(m2[0], m2[1], cur[0], cur[1])
        elif how == 2:
            k = int(rng.integers(2 * N))
            newp = np.array(cur[1]).copy()
            newp[k] = (newp[k] + 2) % 4
            Hm.ps[k] = (Hm.ps[k] + 2) % 4
            cur = (cur[0], newp)
        else:
            qs = gen.rand_subset(rng, N, int(rng.integers(1, N + 1)))
            sm = O.random_map(rng, len(qs))
            mk = np.zeros(N, dtype=bool)
            mk[qs] = True
            # embedding a small map over an identity block only: start from the identity to stay valid
            Hm = B.stabilizer.identity_map(N)
            Hm.inverse()
            Hm.embed(B.Map(sm[0].copy(), sm[1].copy()), mk if B.name == "np" else B.torch.tensor(mk))
            cur = O.map_embed(sm[0], sm[1], qs, N)
        if not O.map_valid(np.asarray(cur[0]), np.asarray(cur[1]) % 4):
            rec.inconclusive("history produced an invalid map in the oracle")
            break
        ok, R = rec.attempt("history.inverse", case, lambda: (Hm.inverse(), Hm.compose(Hm.inverse()), Hm.compose(Hm)))
        if ok:
            xg, xp = O.map_inverse(cur[0], cur[1])
            sq = O.map_compose(cur[0], cur[1], cur[0], cur[1])
            hc = dict(case, step=step, how=["rotate_by", "transform_by", "sign write", "embed"][how], now=_show(cur[0], np.asarray(cur[1]) % 4))
            rec.check("history.inverse", _eq(B, R[0], xg, xp) and _eq(B, R[1], ig, ip), hc, True, expected=_show(xg, xp), observed=_show(*B.gsps(R[0])))
            rec.check("history.compose", _eq(B, R[2], sq[0], sq[1]), hc, True, expected=_show(*sq), observed=_show(*B.gsps(R[2])))
    # the RESULT of an inversion / composition belongs to the caller: it is edited in place (into other valid maps) and the same
    # question is asked again - of the same object, of a copy, of a sign variant
    Q0 = B.Map(ag.copy(), ap.copy())
    ok, W = rec.attempt("history.result_edit", case, lambda: Q0.inverse())
    if ok:
        for step in range(2):
            G, PG = gen.rand_nonid(rng, N), 2 * int(rng.integers(2))
            ok, _ = rec.attempt("history.result_edit", case, (lambda: W.rotate_by(B.Pauli(G, PG))) if step == 0 else
                                (lambda: W.transform_by(B.Map(*O.random_map(rng, N)))))
            who = [Q0, Q0.copy(), B.Map(ag.copy(), (ap + 2 * rng.integers(0, 2, len(ap))) % 4)][int(rng.integers(3))]
            wg, wp = B.gsps(who)
            ok, W2 = rec.attempt("history.result_edit", case, lambda: who.inverse())
            if ok:
                xg, xp = O.map_inverse(wg, wp)
                rec.check("history.result_edit", _eq(B, W2, xg, xp), dict(case, step=step), True, expected=_show(xg, xp), observed=_show(*B.gsps(W2)))
                W = W2
        ok, Cc = rec.attempt("history.result_edit", case, lambda: Q0.compose(Q0))
        if ok:
            Cc.rotate_by(B.Pauli(gen.rand_nonid(rng, N), 0))
            ok, C2 = rec.attempt("history.result_edit", case, lambda: Q0.compose(Q0))
            if ok:
                sq = O.map_compose(ag, ap, ag, ap)
                rec.check("history.result_edit", _eq(B, C2, sq[0], sq[1]), dict(case, op="compose"), True)
    # action: inverse undoes the map on operators
    gs = gen.rand_list(rng, 5, N)
    ps = rng.integers(0, 4, 5)
    P = B.PauliList(gs.copy(), ps.copy())
    ok, _ = rec.attempt("inv.action", case, lambda: P.transform_by(A).transform_by(Ai))
    if ok:
        g1, p1 = B.gsps(P)
        rec.check("inv.action", np.array_equal(g1, gs) and np.array_equal(p1, ps % 4), case, nt)


def triple_law(rec, B, a, b, c):
    A, Bm, C = (B.Map(x[0].copy(), x[1].copy()) for x in (a, b, c))
    case = {"a": _show(*a), "b": _show(*b), "c": _show(*c)}
    nt = not any(_is_id(*x) for x in (a, b, c))
    ok, R = rec.attempt("assoc", case, lambda: (A.compose(Bm).compose(C), A.compose(Bm.compose(C))))
    if ok:
        g1, p1 = B.gsps(R[0])
        xg, xp = O.map_compose(*O.map_compose(a[0], a[1], b[0], b[1]), c[0], c[1])
        rec.check("assoc", _eq(B, R[1], g1, p1) and np.array_equal(g1, xg) and np.array_equal(p1, xp % 4), case, nt,
                  expected=_show(xg, xp), observed=[_show(g1, p1), _show(*B.gsps(R[1]))])


def run_frozen(shard, rec, B):
    """operands held in read-only arrays (frozen constants, memory-mapped tables): composition and inversion only read them."""
    rng = gen.rng_for(rec)
    for t in range(shard["n"]):
        N = int(rng.integers(1, 7))
        a, b = O.random_map(rng, N), O.random_map(rng, N)
        A, Bm = B.freeze(B.Map(a[0].copy(), a[1].copy())), B.freeze(B.Map(b[0].copy(), b[1].copy()))
        case = {"a": _show(*a), "b": _show(*b), "arrays": "read-only"}
        ok, R = rec.attempt("frozen", case, lambda: (A.compose(Bm), A.inverse(), A.compose(A.inverse()), Bm.inverse().compose(A.inverse()), A.compose(Bm).inverse()))
        if ok:
            ab = O.map_compose(a[0], a[1], b[0], b[1])
            ia = O.map_inverse(a[0], a[1])
            iab = O.map_inverse(*ab)
            idn = O.map_identity(N)
            rec.check("frozen", _eq(B, R[0], *ab) and _eq(B, R[1], *ia) and _eq(B, R[2], *idn) and _eq(B, R[3], *iab) and _eq(B, R[4], *iab), case, True)
            rec.check("frozen.immutable", _eq(B, A, a[0], a[1]) and _eq(B, Bm, b[0], b[1]), case, True)
        gs, ps = gen.rand_list(rng, 4, N), rng.integers(0, 4, 4)
        P = B.PauliList(gs.copy(), ps.copy())
        ok, _ = rec.attempt("frozen.action", case, lambda: P.transform_by(A))
        if ok:
            eg, ep = O.map_image_list(a[0], a[1], gs, ps)
            g1, p1 = B.gsps(P)
            rec.check("frozen.action", np.array_equal(g1, eg) and np.array_equal(p1, ep % 4), case, True)


def run_n1(shard, rec, B):
    rng = gen.rng_for(rec)
    maps = list(O.all_maps(1))
    rec.space("ordered pairs of one-qubit maps", 576)
    for a in maps:
        single_laws(rec, B, a, rng)
        for b in maps:
            pair_laws(rec, B, a, b, rng)
    nt = shard.get("triples", 13824)
    rec.space("ordered triples of one-qubit maps", nt, exhaustive=(nt == 13824))
    trip = list(itertools.product(range(24), repeat=3))
    if nt < len(trip):
        trip = [trip[i] for i in rng.choice(len(trip), nt, replace=False)]
    for i, j, k in trip:
        triple_law(rec, B, maps[i], maps[j], maps[k])


def generating_set():
    """H, S on each qubit, CNOT both ways, X-type and Z-type sign flips: generates the 2-qubit Clifford group mod phase."""
    out = []
    h = (np.array([[0, 1], [1, 0]]), np.array([0, 0]))
    s = (np.array([[1, 1], [0, 1]]), np.array([0, 0]))
    for q in (0, 1):
        for m in (h, s):
            out.append(O.map_embed(m[0], m[1], [q], 2))
    out.append((np.array([[1, 0, 1, 0], [0, 1, 0, 0], [0, 0, 1, 0], [0, 1, 0, 1]]), np.zeros(4, dtype=np.int64)))
    out.append((np.array([[1, 0, 0, 0], [0, 1, 0, 1], [1, 0, 1, 0], [0, 0, 0, 1]]), np.zeros(4, dtype=np.int64)))
    for k in range(4):
        p = np.zeros(4, dtype=np.int64)
        p[k] = 2
        out.append((np.eye(4, dtype=np.int64), p))
    return out


def run_n2(shard, rec, B):
    rng = gen.rng_for(rec)
    maps = list(O.all_maps(2))
    if len(maps) != 11520:
        rec.inconclusive("oracle enumerated %d maps" % len(maps))
    gset = generating_set()
    for g in gset:
        if not O.map_valid(*g):
            rec.inconclusive("generating set invalid")
    lo, hi, stride = shard["lo"], shard["hi"], shard.get("stride", 1)
    rec.space("two-qubit maps [%d:%d:%d] x (inverse laws, %d generators)" % (lo, hi, stride, len(gset)),
              len(range(lo, hi, stride)), exhaustive=(stride == 1))
    for k in range(lo, hi, stride):
        a = maps[k]
        single_laws(rec, B, a, rng)
        for j, g in enumerate(gset):
            pair_laws(rec, B, a, g, rng, heavy=(j == k % len(gset)))
        for _ in range(shard.get("partners", 1)):
            b = maps[int(rng.integers(11520))]
            pair_laws(rec, B, a, b, rng, heavy=True)
            if rng.integers(4) == 0:
                triple_law(rec, B, a, b, maps[int(rng.integers(11520))])


def run_rand(shard, rec, B):
    rng = gen.rng_for(rec)
    Ns = [2, 3, 4, 5, 6, 8] if B.name == "np" else [2, 3, 4]
    for t in range(shard["n"]):
        N = Ns[t % len(Ns)]
        a, b, c = (O.random_map(rng, N) for _ in range(3))
        if t % 3 == 1:      # structured maps (wire permutations with signs, CNOT networks, diagonal maps, Hadamard layers)
            from .c03 import structured_map
            a, b = structured_map(rng, N), structured_map(rng, N)
            a, b = (a[0], a[1] % 4), (b[0], b[1] % 4)
            if t % 2:
                c = structured_map(rng, N)
        single_laws(rec, B, a, rng)
        pair_laws(rec, B, a, b, rng)
        triple_law(rec, B, a, b, c)
    # z2inv on random invertible matrices
    z2inv = B.utils.z2inv
    for t in range(max(30, shard["n"] // 4)):
        n = int(rng.integers(1, 25))
        while True:
            M = rng.integers(0, 2, (n, n))
            Mi = O.gf2inv(M)
            if Mi is not None:
                break
        ok, R = rec.attempt("z2inv", M, lambda: z2inv(np.array(M, dtype=np.int64)))
        if ok:
            rec.check("z2inv", np.array_equal(np.asarray(R) % 2, Mi) and np.array_equal((M @ np.asarray(R)) % 2, np.eye(n, dtype=np.int64)),
                      M, n > 1)


def run_big(shard, rec, B):
    """group laws on wide registers (word / byte thresholds) and Z2 inversion of matrices up to 260 x 260."""
    rng = gen.rng_for(rec)
    Ns = [16, 31, 32, 33, 63, 64, 65, 70] if B.name == "np" else [16, 33]
    for t in range(shard["n"]):
        for N in Ns:
            a, b = O.random_map(rng, N, nrot=N + 4), O.random_map(rng, N, nrot=N + 4)
            single_laws(rec, B, a, rng)
            pair_laws(rec, B, a, b, rng, heavy=(N <= 33))
        for n in ([127, 128, 129, 256, 260] if B.name == "np" else [64]):
            while True:
                M = rng.integers(0, 2, (n, n))
                Mi = O.gf2inv(M)
                if Mi is not None:
                    break
            ok, R = rec.attempt("z2inv", n, lambda: B.utils.z2inv(np.array(M, dtype=np.int64)))
            if ok:
                rec.check("z2inv", np.array_equal(np.asarray(R) % 2, Mi), ["big z2inv", n, int(M.sum())], True)
