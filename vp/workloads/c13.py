"""C13 torchclifford computes the same results as pyclifford (port equivalence) - differential monitoring."""
import itertools

import numpy as np

from .. import oracle as O
from .. import gen
from .. import programs as PR
from .. import circ_common as CC

RULE = ("the same well-formed input is handed to the same-named function / method of both packages: every shared deterministic "
        "kernel (front .. stabilizer_projection_trace) and class-level operation (parsing, Pauli/list/polynomial algebra, rotations, "
        "map transforms, compose/inverse/embed, state/map conversion, expect/entropy/get_prob/density_matrix, constructors, gate/"
        "layer/circuit forward/backward/compile/copy/compose, diagonalize); exhaustive small grids where <=10^4 inputs, random N<=8 "
        "otherwise; outputs normalised to integer arrays, phases mod 4, ranks and complex numbers (1e-4 tolerance); non-trivial = "
        "input is not the identity string / identity map / all-plus")
ASSUMPTIONS = ["pyclifford is the reference (each of its functions is pinned to the oracle by C01-C12, C15, C18, C20)",
               "random samplers and measure are excluded (not deterministic)", "a function that raises in one backend only is a disagreement",
               "states are compared row by row (both packages share the tableau algorithms)"]
REQUIRED_SUBS = ["k.acq", "k.ipow", "k.ps0", "k.acq_mat", "k.batch_dot", "k.pauli_tokenize", "k.pauli_combine", "k.pauli_transform",
                 "k.clifford_rotate", "k.pauli_diagonalize1", "k.pauli_diagonalize2", "k.map_to_state", "k.state_to_map",
                 "k.stabilizer_project", "k.stabilizer_expect", "k.stabilizer_entropy", "k.z2rank", "k.stabilizer_projection_trace",
                 "c.pauli", "c.paulis", "c.Pauli.*", "c.PauliList.*", "c.PauliPolynomial.*", "c.CliffordMap.*", "c.StabilizerState.*",
                 "c.ctor.*", "c.circuit.*", "c.diagonalize.*"]


def shards(tier):
    q = tier == "quick"
    out = [{"name": "kernels.grid", "mode": "jit", "backend": "both", "fn": "kernels", "n": 150 if q else 6000, "grid": True},
           {"name": "classes", "mode": "jit", "backend": "both", "fn": "classes", "n": 60 if q else 2500},
           {"name": "circuits", "mode": "jit", "backend": "both", "fn": "circuits", "n": 25 if q else 1000},
           {"name": "kernels.interp", "mode": "interp", "backend": "both", "fn": "kernels", "n": 80 if q else 2000, "grid": False},
           {"name": "classes.interp", "mode": "interp", "backend": "both", "fn": "classes", "n": 30 if q else 800},
           {"name": "kernels.big", "mode": "jit", "backend": "both", "fn": "kernels", "n": 16 if q else 400, "grid": False,
            "Ns": [16, 31, 32, 33, 63, 64, 65, 70, 128, 130]},
           {"name": "classes.big", "mode": "jit", "backend": "both", "fn": "classes", "n": 6 if q else 120, "Ns": [12, 16, 33, 64, 65, 70]}]
    if not q:
        for k in range(4):
            out.append({"name": "kernels.%d" % k, "mode": "jit", "backend": "both", "fn": "kernels", "n": 6000, "grid": False})
            out.append({"name": "classes.%d" % k, "mode": "jit", "backend": "both", "fn": "classes", "n": 2500})
            out.append({"name": "circuits.%d" % k, "mode": "jit", "backend": "both", "fn": "circuits", "n": 1000})
    return out


def run(shard, rec, B):
    globals()["run_" + shard["fn"]](shard, rec, B[0], B[1])


# ---------------------------------------------------------------- normalisation
def norm(x, B):
    """library value -> comparable python structure."""
    A, S = B.paulialg, B.stabilizer
    if x is None or isinstance(x, (str, bool)):
        return x
    if isinstance(x, S.StabilizerState):
        g, p, r = B.state(x)
        return ("state", g.tolist(), p.tolist(), int(r))
    if isinstance(x, A.PauliPolynomial):
        gs, ps, cs = B.np(x.gs), B.ph(x.ps), B.cnp(x.cs)
        return ("poly", [r.tolist() for r in gs.reshape(len(ps), gs.shape[-1] if gs.ndim else 0)] if len(ps) else [], ps.tolist(), [complex(c) for c in cs])
    if isinstance(x, S.CliffordMap):
        g, p = B.gsps(x)
        return ("map", g.tolist(), p.tolist())
    if isinstance(x, A.PauliList):
        g, p = B.gsps(x)
        return ("list", [r.tolist() for r in g] if len(p) else [], p.tolist())
    if hasattr(A, "PauliMonomial") and isinstance(x, A.PauliMonomial):
        g, p = B.gp(x)
        return ("poly", [g.tolist()], [p], [complex(x.c)])
    if isinstance(x, A.Pauli):
        g, p = B.gp(x)
        return ("pauli", g.tolist(), p)
    if isinstance(x, (tuple, list)):
        return [norm(v, B) for v in x]
    if isinstance(x, (int, np.integer)):
        return int(x)
    if isinstance(x, (float, np.floating)):
        return float(x)
    if isinstance(x, (complex, np.complexfloating)):
        return complex(x)
    try:
        import torch
        if torch.is_tensor(x):
            x = x.detach().cpu().numpy()
    except ImportError:
        pass
    if isinstance(x, np.ndarray):
        if x.dtype.kind == "c":
            return [complex(v) for v in x.reshape(-1)] if x.ndim else complex(x)
        if x.dtype.kind == "b":
            return x.astype(int).tolist()
        return np.asarray(x, dtype=float).tolist() if x.ndim else float(x)
    if hasattr(x, "full"):
        return [complex(v) for v in np.asarray(x.full()).reshape(-1)]
    return repr(x)


def equal(a, b, tol=1e-4):
    if isinstance(a, (list, tuple)) and isinstance(b, (list, tuple)):
        return len(a) == len(b) and all(equal(x, y, tol) for x, y in zip(a, b))
    if isinstance(a, (int, float, complex)) and isinstance(b, (int, float, complex)) and not isinstance(a, bool) and not isinstance(b, bool):
        return abs(complex(a) - complex(b)) <= tol * (1 + abs(complex(a)))
    return a == b


def poly_canon(n):
    """a polynomial as a sorted dict string -> total coefficient (term order and phase placement are representation)."""
    if not (isinstance(n, (list, tuple)) and n and n[0] == "poly"):
        return n
    d = {}
    for g, p, c in zip(n[1], n[2], n[3]):
        k = tuple(g)
        d[k] = d.get(k, 0) + c * 1j ** int(p)
    return sorted((k, complex(np.round(v, 4))) for k, v in d.items() if abs(v) > 1e-4)


def poly_terms(n):
    """as poly_canon but keeping every listed term, including exact zeros (which terms survive a tolerance is the question)."""
    if not (isinstance(n, (list, tuple)) and n and n[0] == "poly"):
        return n
    # numerically zero terms are no terms: the torch port evaluates i^p in floating point, so exact cancellations leave 1e-17
    # residues that survive tol=0, and it spells the zero polynomial 0 * identity where pyclifford returns no terms at all
    return sorted((tuple(g), complex(np.round(c * 1j ** int(p), 4))) for g, p, c in zip(n[1], n[2], n[3]) if abs(c) > 1e-6)


def both(rec, sub, case, fa, fb, NB, TB, nt=True, canon=None, tags=None):
    """run the two implementations; a raise in one only, or different normalised outputs, is a disagreement."""
    ra = rb = ea = eb = None
    try:
        ra = fa()
    except Exception as e:
        ea = "%s: %s" % (type(e).__name__, str(e)[:120])
    try:
        rb = fb()
    except Exception as e:
        eb = "%s: %s" % (type(e).__name__, str(e)[:120])
    if ea is not None and eb is not None:
        rec.refusal("both raise: " + sub)
        return None
    if ea is not None or eb is not None:
        rec.check(sub, False, case, nt, expected={"pyclifford": ea or "a result"}, observed={"torchclifford": eb or "a result"},
                  tags=dict(tags or {}, one_sided_raise=True))
        return None
    if callable(tags):
        tags = tags(ra, rb)
    na, nb = norm(ra, NB), norm(rb, TB)
    if canon:
        na, nb = canon(na), canon(nb)
    rec.check(sub, equal(na, nb), case, nt, expected={"pyclifford": na if len(repr(na)) < 600 else repr(na)[:600]},
              observed={"torchclifford": nb if len(repr(nb)) < 600 else repr(nb)[:600]}, tags=tags)
    return ra, rb


# ---------------------------------------------------------------- kernels
def run_kernels(shard, rec, NB, TB):
    rng = gen.rng_for(rec)
    U, V = NB.utils, TB.utils
    a, t = NB.arr, TB.arr
    if shard.get("grid"):
        for N in (1, 2):
            S = O.all_strings(N)
            rec.space("string pairs N=%d for acq/ipow" % N, len(S) ** 2)
            for g1 in S:
                for g2 in S:
                    c = [O.g2s(g1), O.g2s(g2)]
                    both(rec, "k.acq", c, lambda: U.acq(a(g1), a(g2)), lambda: V.acq(t(g1), t(g2)), NB, TB, bool(g1.any() and g2.any()))
                    both(rec, "k.ipow", c, lambda: U.ipow(a(g1), a(g2)), lambda: V.ipow(t(g1), t(g2)), NB, TB, bool(g1.any() and g2.any()))
    for it in range(shard["n"]):
        N = int(rng.integers(1, 9)) if not shard.get("Ns") else int(shard["Ns"][it % len(shard["Ns"])])
        g1, g2 = gen.rand_string(rng, N), gen.rand_string(rng, N)
        if shard.get("Ns") and it % 2:
            g1, g2 = gen.sparse_string(rng, N), gen.sparse_string(rng, N)
        L = int(rng.integers(1, 7)) if not shard.get("Ns") or it % 3 else int(gen.BIG_LS[it % len(gen.BIG_LS)] // (4 if N > 40 else 1))
        gs, ps = gen.rand_list(rng, L, N), rng.integers(0, 4, L)
        c = {"N": N, "g1": O.g2s(g1), "g2": O.g2s(g2), "list": [O.show(x, y) for x, y in zip(gs, ps)]}
        nz = gen.rand_nonid(rng, N)
        both(rec, "k.front", O.g2s(nz), lambda: U.front(a(nz)), lambda: V.front(t(nz)), NB, TB)
        both(rec, "k.condense", O.g2s(g1), lambda: U.condense(a(g1)), lambda: V.condense(t(g1)), NB, TB, bool(g1.any()))
        both(rec, "k.acq", c, lambda: U.acq(a(g1), a(g2)), lambda: V.acq(t(g1), t(g2)), NB, TB)
        both(rec, "k.ipow", c, lambda: U.ipow(a(g1), a(g2)), lambda: V.ipow(t(g1), t(g2)), NB, TB)
        both(rec, "k.ps0", c, lambda: U.ps0(a(gs)), lambda: V.ps0(t(gs)), NB, TB)
        both(rec, "k.acq_mat", c, lambda: U.acq_mat(a(gs)), lambda: V.acq_mat(t(gs)), NB, TB)
        L2 = int(rng.integers(1, 5))
        g2s_, p2s = gen.rand_list(rng, L2, N), rng.integers(0, 4, L2)
        c1, c2 = gen.rand_coeffs(rng, L), gen.rand_coeffs(rng, L2)
        both(rec, "k.batch_dot", c, lambda: U.batch_dot(a(gs), a(ps), NB.carr(c1), a(g2s_), a(p2s), NB.carr(c2)),
             lambda: V.batch_dot(t(gs), t(ps), TB.carr(c1), t(g2s_), t(p2s), TB.carr(c2)), NB, TB)
        both(rec, "k.pauli_tokenize", c, lambda: U.pauli_tokenize(a(gs), a(ps)), lambda: V.pauli_tokenize(t(gs), t(ps)), NB, TB)
        Cm = rng.integers(0, 2, (int(rng.integers(1, 5)), L))
        both(rec, "k.pauli_combine", dict(c, C=Cm), lambda: U.pauli_combine(a(Cm), a(gs), a(ps)), lambda: V.pauli_combine(t(Cm), t(gs), t(ps)), NB, TB)
        mg, mp = O.random_map(rng, N)
        both(rec, "k.pauli_transform", c, lambda: U.pauli_transform(a(gs), a(ps), a(mg), a(mp)), lambda: V.pauli_transform(t(gs), t(ps), t(mg), t(mp)), NB, TB)
        PG = 2 * int(rng.integers(2))
        both(rec, "k.clifford_rotate", c, lambda: U.clifford_rotate(a(g1), PG, a(gs), a(ps)), lambda: V.clifford_rotate(t(g1), PG, t(gs), t(ps)), NB, TB)
        both(rec, "k.clifford_rotate_signless", c, lambda: U.clifford_rotate_signless(a(g1), a(gs)), lambda: V.clifford_rotate_signless(t(g1), t(gs)), NB, TB)
        i0 = int(rng.integers(N))
        both(rec, "k.pauli_is_onsite", [O.g2s(g1), i0], lambda: bool(U.pauli_is_onsite(a(g1), i0)), lambda: bool(V.pauli_is_onsite(t(g1), i0)), NB, TB)
        both(rec, "k.pauli_diagonalize1", [O.g2s(nz), i0], lambda: [np.asarray(x) for x in U.pauli_diagonalize1(a(nz), i0)],
             lambda: list(V.pauli_diagonalize1(t(nz), i0)), NB, TB)
        # an anticommuting pair
        for _ in range(20):
            h = gen.rand_nonid(rng, N)
            if O.anti(nz, h):
                both(rec, "k.pauli_diagonalize2", [O.g2s(nz), O.g2s(h), i0],
                     lambda: (lambda r: ([np.asarray(x) for x in r[0]], r[1], r[2]))(U.pauli_diagonalize2(a(nz), a(h), i0)),
                     lambda: (lambda r: (list(r[0]), r[1], r[2]))(V.pauli_diagonalize2(t(nz), t(h), i0)), NB, TB)
                break
        both(rec, "k.map_to_state", c, lambda: U.map_to_state(a(mg), a(mp)), lambda: V.map_to_state(t(mg), t(mp)), NB, TB)
        tg, tp, r = O.random_tableau(rng, N)
        both(rec, "k.state_to_map", c, lambda: U.state_to_map(a(tg), a(tp)), lambda: V.state_to_map(t(tg), t(tp)), NB, TB)
        og, op = gen.commuting_hermitian_list(rng, tg, tp, r, int(rng.integers(1, 4)))
        sc = {"rows": [O.show(x, y) for x, y in zip(tg, tp)], "r": r, "obs": [O.show(x, y) for x, y in zip(og, op)]}
        both(rec, "k.stabilizer_project", sc, lambda: U.stabilizer_project(a(tg), a(og), r), lambda: V.stabilizer_project(t(tg), t(og), r), NB, TB)
        both(rec, "k.stabilizer_expect", sc, lambda: U.stabilizer_expect(a(tg), a(tp), a(og), a(op), r),
             lambda: V.stabilizer_expect(t(tg), t(tp), t(og), t(op), r), NB, TB)
        both(rec, "k.vectorizable_stabilizer_expect", sc, lambda: U.stabilizer_expect(a(tg), a(tp), a(og), a(op), r),
             lambda: V.vectorizable_stabilizer_expect(t(tg), t(tp), t(og), t(op), r), NB, TB)
        m = np.zeros(N, dtype=bool)
        m[gen.rand_subset(rng, N, int(rng.integers(1, N + 1)))] = True
        if r < N:
            both(rec, "k.stabilizer_entropy", dict(sc, mask=m), lambda: U.stabilizer_entropy(a(tg[r:N]), m),
                 lambda: V.stabilizer_entropy(t(tg[r:N]), TB.torch.tensor(m)), NB, TB)
        nr, nc = int(rng.integers(1, 10)), int(rng.integers(1, 10))
        Mx = rng.integers(0, 2, (nr, nc))
        both(rec, "k.z2rank", Mx, lambda: U.z2rank(a(Mx)), lambda: V.z2rank(t(Mx)), NB, TB)
        while True:
            n = int(rng.integers(1, 9))
            Mi = rng.integers(0, 2, (n, n))
            if O.gf2inv(Mi) is not None:
                break
        both(rec, "k.z2inv", Mi, lambda: U.z2inv(a(Mi)), lambda: V.z2inv(np.array(Mi, dtype=np.int64)), NB, TB)
        qs = gen.rand_subset(rng, N, int(rng.integers(1, N + 1)))
        both(rec, "k.mask", [qs, N], lambda: U.mask(qs, N), lambda: V.mask(qs, N), NB, TB)
        ints = rng.integers(0, 64, int(rng.integers(1, 6)))
        w = 6
        both(rec, "k.binary_repr", ints, lambda: U.binary_repr(np.array(ints, dtype=np.int64), w), lambda: V.binary_repr(TB.torch.tensor(ints), w), NB, TB)
        w = [7, 8, 9, 15, 16, 17, 20, 33][it % 8]
        ints = rng.integers(0, 2 ** w, 5)
        wantb = np.array([[(int(v) >> (w - 1 - b)) & 1 for b in range(w)] for v in ints])
        r_ = both(rec, "k.binary_repr", [ints, w], lambda: U.binary_repr(np.array(ints, dtype=np.int64), w), lambda: V.binary_repr(TB.torch.tensor(ints), w), NB, TB)
        if r_ is not None:
            rec.check("k.binary_repr.value", np.array_equal(np.asarray(r_[0]).astype(int), wantb), [ints, w], True, expected=wantb, observed=np.asarray(r_[0]).astype(int))
        ar = np.arange(2 ** [3, 9, 10][it % 3])
        r_ = both(rec, "k.binary_repr", ["arange", len(ar)], lambda: U.binary_repr(ar.copy()), lambda: V.binary_repr(TB.torch.tensor(ar)), NB, TB)
        if r_ is not None:
            wd = int(np.log2(len(ar)))
            wantb = (ar[:, None] >> np.arange(wd)[::-1]) & 1
            rec.check("k.binary_repr.value", np.array_equal(np.asarray(r_[0]).astype(int), wantb), ["arange", len(ar)], True)
        data = gen.rand_coeffs(rng, 6)
        inds = rng.integers(0, 3, 6)
        both(rec, "k.aggregate", [data, inds], lambda: U.aggregate(NB.carr(data), np.array(inds), 3),
             lambda: V.aggregate(TB.carr(data), TB.torch.tensor(inds), 3), NB, TB)
        # overlap kernel: pure receiver, stabilizers of another state
        pg, pp, _ = O.random_tableau(rng, N, r=0)
        sg, sp, sr = O.random_tableau(rng, N) if it % 2 else (pg.copy(), (pp + 2 * rng.integers(0, 2, 2 * N) * int(rng.integers(2))) % 4, int(rng.integers(0, N)))
        if sr < N:
            both(rec, "k.stabilizer_projection_trace", {"rho": [O.show(x, y) for x, y in zip(pg, pp)], "sigma": [O.show(x, y) for x, y in zip(sg[sr:N], sp[sr:N])]},
                 lambda: (lambda R: (R[0], R[1][:N], R[2], R[3]))(U.stabilizer_projection_trace(a(pg), a(pp), a(sg[sr:N]), a(sp[sr:N]), 0)),
                 lambda: (lambda R: (R[0], R[1][:N], R[2], R[3]))(V.stabilizer_projection_trace(t(pg), t(pp), t(sg[sr:N]), t(sp[sr:N]), 0)), NB, TB)


# ---------------------------------------------------------------- classes
def run_classes(shard, rec, NB, TB):
    rng = gen.rng_for(rec)
    for it in range(shard["n"]):
        N = int(rng.integers(1, 7)) if not shard.get("Ns") else int(shard["Ns"][it % len(shard["Ns"])])
        g, p = gen.rand_string(rng, N), int(rng.integers(4))
        h, q = gen.rand_string(rng, N), int(rng.integers(4))
        s1 = ['', '+', '-', 'i', '-i', '+i'][int(rng.integers(6))] + O.g2s(g)
        codes = [int(x) for x in O.letters(g)] + [[4, 6, 5, 7][p]]
        both(rec, "c.pauli", s1, lambda: NB.paulialg.pauli(s1), lambda: TB.paulialg.pauli(s1), NB, TB)
        both(rec, "c.pauli", codes, lambda: NB.paulialg.pauli(codes), lambda: TB.paulialg.pauli(codes), NB, TB)
        d = {int(i): int(x) for i, x in enumerate(O.letters(g)) if x}
        both(rec, "c.pauli", [sorted(d.items()), N], lambda: NB.paulialg.pauli(d, N), lambda: TB.paulialg.pauli(d, N), NB, TB)
        L = int(rng.integers(1, 6))
        gs, ps = gen.rand_list(rng, L, N), rng.integers(0, 4, L)
        strs = [['', '-', 'i', '-i'][[0, 2, 1, 3].index(int(y))] + O.g2s(x) for x, y in zip(gs, ps)]
        both(rec, "c.paulis", strs, lambda: NB.paulialg.paulis(strs), lambda: TB.paulialg.paulis(strs), NB, TB)
        case = {"P": O.show(g, p), "Q": O.show(h, q), "list": [O.show(x, y) for x, y in zip(gs, ps)]}
        mk = lambda B_: (B_.Pauli(g.copy(), p), B_.Pauli(h.copy(), q), B_.PauliList(gs.copy(), ps.copy()))
        Pa, Qa, La = mk(NB)
        Pb, Qb, Lb = mk(TB)
        both(rec, "c.Pauli.matmul", case, lambda: Pa @ Qa, lambda: Pb @ Qb, NB, TB)
        both(rec, "c.Pauli.neg", case, lambda: -Pa, lambda: -Pb, NB, TB)
        for c in (1, -1, 1j, -1j, 2.5 - 1j):
            both(rec, "c.Pauli.rmul", [case["P"], str(c)], lambda: c * Pa, lambda: c * Pb, NB, TB, canon=poly_canon)
        both(rec, "c.Pauli.div", case, lambda: Pa / 1j, lambda: Pb / 1j, NB, TB)
        both(rec, "c.Pauli.add", case, lambda: Pa + Qa, lambda: Pb + Qb, NB, TB, canon=poly_canon)
        both(rec, "c.Pauli.sub", case, lambda: Pa - Qa, lambda: Pb - Qb, NB, TB, canon=poly_canon)
        both(rec, "c.Pauli.add.number", case, lambda: Pa + 2, lambda: Pb + 2, NB, TB, canon=poly_canon)
        both(rec, "c.Pauli.weight", case, lambda: int(Pa.weight()), lambda: int(Pb.weight()), NB, TB)
        both(rec, "c.Pauli.trace", case, lambda: complex(Pa.trace()), lambda: complex(TB.cnp(Pb.trace())), NB, TB,
             tags=lambda x, y: {"mech": "trace_ignores_phase" if (p != 0 and not g.any() and abs(x - 2 ** N) < 1e-9
                                                                   and abs(y - 1j ** p * 2 ** N) < 1e-4) else ""})
        both(rec, "c.Pauli.tokenize", case, lambda: Pa.tokenize(), lambda: Pb.tokenize(), NB, TB)
        both(rec, "c.Pauli.repr", case, lambda: repr(Pa), lambda: repr(Pb), NB, TB)
        both(rec, "c.Pauli.as_polynomial", case, lambda: Pa.as_polynomial(), lambda: Pb.as_polynomial(), NB, TB, canon=poly_canon)
        if N <= 3:
            both(rec, "c.Pauli.to_qutip", case, lambda: Pa.to_qutip(), lambda: Pb.to_qutip(), NB, TB)
        G, PG = gen.rand_nonid(rng, N), 2 * int(rng.integers(2))
        both(rec, "c.Pauli.rotate_by", dict(case, G=O.show(G, PG)), lambda: NB.Pauli(g.copy(), p).rotate_by(NB.Pauli(G, PG)),
             lambda: TB.Pauli(g.copy(), p).rotate_by(TB.Pauli(G, PG)), NB, TB)
        mg, mp = O.random_map(rng, N)
        both(rec, "c.Pauli.transform_by", case, lambda: NB.Pauli(g.copy(), p).transform_by(NB.Map(mg, mp)),
             lambda: TB.Pauli(g.copy(), p).transform_by(TB.Map(mg, mp)), NB, TB)
        # lists
        both(rec, "c.PauliList.neg", case, lambda: -La, lambda: -Lb, NB, TB)
        both(rec, "c.PauliList.rmul", case, lambda: 1j * La, lambda: 1j * Lb, NB, TB)
        both(rec, "c.PauliList.trace", case, lambda: NB.cnp(La.trace()), lambda: TB.cnp(Lb.trace()), NB, TB)
        both(rec, "c.PauliList.weight", case, lambda: La.weight(), lambda: Lb.weight(), NB, TB)
        both(rec, "c.PauliList.tokenize", case, lambda: La.tokenize(), lambda: Lb.tokenize(), NB, TB)
        both(rec, "c.PauliList.repr", case, lambda: repr(La), lambda: repr(Lb), NB, TB)
        both(rec, "c.PauliList.len", case, lambda: [len(La), La.N, La.L], lambda: [len(Lb), Lb.N, Lb.L], NB, TB)
        k = int(rng.integers(L))
        both(rec, "c.PauliList.getitem", case, lambda: (La[k], La[k:], La[::2]), lambda: (Lb[k], Lb[k:], Lb[::2]), NB, TB)
        qs = gen.rand_subset(rng, N, int(rng.integers(1, N + 1)))
        m = np.zeros(N, dtype=bool)
        m[qs] = True
        Gs = gen.rand_string(rng, len(qs))
        both(rec, "c.PauliList.rotate_by", case, lambda: NB.PauliList(gs.copy(), ps.copy()).rotate_by(NB.Pauli(G, PG)),
             lambda: TB.PauliList(gs.copy(), ps.copy()).rotate_by(TB.Pauli(G, PG)), NB, TB)
        both(rec, "c.PauliList.rotate_by.mask", dict(case, qubits=qs, G=O.show(Gs, PG)), lambda: NB.PauliList(gs.copy(), ps.copy()).rotate_by(NB.Pauli(Gs, PG), mask=m),
             lambda: TB.PauliList(gs.copy(), ps.copy()).rotate_by(TB.Pauli(Gs, PG), mask=TB.torch.tensor(m)), NB, TB)
        both(rec, "c.PauliList.transform_by", case, lambda: NB.PauliList(gs.copy(), ps.copy()).transform_by(NB.Map(mg, mp)),
             lambda: TB.PauliList(gs.copy(), ps.copy()).transform_by(TB.Map(mg, mp)), NB, TB)
        sm = O.random_map(rng, len(qs))
        both(rec, "c.PauliList.transform_by.mask", dict(case, qubits=qs), lambda: NB.PauliList(gs.copy(), ps.copy()).transform_by(NB.Map(*sm), mask=m),
             lambda: TB.PauliList(gs.copy(), ps.copy()).transform_by(TB.Map(*sm), mask=TB.torch.tensor(m)), NB, TB)
        # polynomials
        cs = gen.rand_coeffs(rng, L)
        L2 = int(rng.integers(1, 4))
        g2, p2, c2 = gen.rand_list(rng, L2, N), rng.integers(0, 4, L2), gen.rand_coeffs(rng, L2)
        Ha, Ka = NB.Poly(gs.copy(), ps.copy(), cs.copy()), NB.Poly(g2, p2, c2)
        Hb, Kb = TB.Poly(gs.copy(), ps.copy(), cs.copy()), TB.Poly(g2, p2, c2)
        pc = {"H": [[O.show(x, y), z] for x, y, z in zip(gs, ps, cs)], "K": [[O.show(x, y), z] for x, y, z in zip(g2, p2, c2)]}
        both(rec, "c.PauliPolynomial.add", pc, lambda: Ha + Ka, lambda: Hb + Kb, NB, TB, canon=poly_canon)
        both(rec, "c.PauliPolynomial.sub", pc, lambda: Ha - Ka, lambda: Hb - Kb, NB, TB, canon=poly_canon)
        both(rec, "c.PauliPolynomial.add.pauli", pc, lambda: Ha + Pa, lambda: Hb + Pb, NB, TB, canon=poly_canon)
        both(rec, "c.PauliPolynomial.add.list", pc, lambda: Ha + La, lambda: Hb + Lb, NB, TB, canon=poly_canon)
        both(rec, "c.PauliPolynomial.add.number", pc, lambda: Ha + (1 - 2j), lambda: Hb + (1 - 2j), NB, TB, canon=poly_canon)
        both(rec, "c.PauliPolynomial.rmul", pc, lambda: (0.5 + 1j) * Ha, lambda: (0.5 + 1j) * Hb, NB, TB, canon=poly_canon)
        both(rec, "c.PauliPolynomial.div", pc, lambda: Ha / 2, lambda: Hb / 2, NB, TB, canon=poly_canon)
        both(rec, "c.PauliPolynomial.neg", pc, lambda: -Ha, lambda: -Hb, NB, TB, canon=poly_canon)
        both(rec, "c.PauliPolynomial.matmul", pc, lambda: Ha @ Ka, lambda: Hb @ Kb, NB, TB)
        both(rec, "c.PauliPolynomial.matmul.pauli", pc, lambda: Ha @ Pa, lambda: Hb @ Pb, NB, TB)
        both(rec, "c.PauliPolynomial.reduce", pc, lambda: (Ha @ Ka).reduce(1e-4), lambda: (Hb @ Kb).reduce(1e-4), NB, TB, canon=poly_canon)
        # explicit tolerances with coefficients exactly on the threshold (round values, exact cancellations)
        tg_ = np.concatenate([gs, gs[:2]])
        tp_ = np.zeros(len(gs) + 2, dtype=np.int64)     # phase +1 everywhere: the port evaluates i^p in float32 (i^1 = -4e-8 + 1j), which would
                                                        # move a coefficient off an exact tie by one rounding step; signs live in the coefficients here
        tc_ = np.concatenate([rng.choice(np.array([0.5, -0.5, 1.0, -1.0, 0.25, 2.0]), size=len(gs)).astype(complex), [0.5, -1.0]])
        tc_[0], tc_[1] = -0.5, 0.5       # term 0 cancels exactly with the appended copy; term 1 sums to -0.5
        for tol_ in (0, 0.5, 1.0, 0.25):
            both(rec, "c.PauliPolynomial.reduce.tie", {"tol": tol_, "terms": [[O.show(x, y), complex(z)] for x, y, z in zip(tg_, tp_, tc_)]},
                 lambda: NB.Poly(tg_.copy(), tp_.copy(), tc_.copy()).reduce(tol_), lambda: TB.Poly(tg_.copy(), tp_.copy(), tc_.copy()).reduce(tol_), NB, TB,
                 canon=poly_terms)
        both(rec, "c.PauliPolynomial.trace", pc, lambda: complex(Ha.trace()), lambda: complex(TB.cnp(Hb.trace())), NB, TB)
        # near-duplicate strings (equal up to one far site) must be kept apart by reduce / + in both packages
        nd = np.stack([gs[0]] * 4)
        for j_, q_ in enumerate((N - 1, N // 2, 0)):
            nd[j_ + 1, 2 * q_ + (j_ % 2)] ^= 1
        ndp, ndc = rng.integers(0, 4, 4), gen.rand_coeffs(rng, 4) + 0.5
        both(rec, "c.PauliPolynomial.reduce.near", {"N": N, "base": O.g2s(gs[0])}, lambda: NB.Poly(nd.copy(), ndp.copy(), ndc.copy()).reduce(1e-4),
             lambda: TB.Poly(nd.copy(), ndp.copy(), ndc.copy()).reduce(1e-4), NB, TB, canon=poly_canon)
        both(rec, "c.PauliPolynomial.add.near", {"N": N, "base": O.g2s(gs[0])}, lambda: NB.Poly(nd.copy(), ndp.copy(), ndc.copy()) + Ha,
             lambda: TB.Poly(nd.copy(), ndp.copy(), ndc.copy()) + Hb, NB, TB, canon=poly_canon)
        if N <= 3:
            both(rec, "c.PauliPolynomial.to_qutip", pc, lambda: Ha.to_qutip(), lambda: Hb.to_qutip(), NB, TB)
        # maps
        m2 = O.random_map(rng, N)
        mc = {"a": [O.show(x, y) for x, y in zip(mg, mp)], "b": [O.show(x, y) for x, y in zip(*m2)]}
        both(rec, "c.CliffordMap.compose", mc, lambda: NB.Map(mg, mp).compose(NB.Map(*m2)), lambda: TB.Map(mg, mp).compose(TB.Map(*m2)), NB, TB)
        both(rec, "c.CliffordMap.inverse", mc, lambda: NB.Map(mg, mp).inverse(), lambda: TB.Map(mg, mp).inverse(), NB, TB)
        both(rec, "c.CliffordMap.copy", mc, lambda: NB.Map(mg, mp).copy(), lambda: TB.Map(mg, mp).copy(), NB, TB)
        rr = int(rng.integers(0, N + 1))
        both(rec, "c.CliffordMap.to_state", mc, lambda: NB.Map(mg, mp).to_state(rr), lambda: TB.Map(mg, mp).to_state(rr), NB, TB)
        both(rec, "c.CliffordMap.embed", dict(mc, qubits=qs), lambda: NB.stabilizer.identity_map(N).embed(NB.Map(*sm), m),
             lambda: TB.stabilizer.identity_map(N).embed(TB.Map(*sm), TB.torch.tensor(m)), NB, TB)
        both(rec, "c.ctor.identity_map", N, lambda: NB.stabilizer.identity_map(N), lambda: TB.stabilizer.identity_map(N), NB, TB, False)
        both(rec, "c.ctor.clifford_rotation_map", O.show(G, PG), lambda: NB.stabilizer.clifford_rotation_map(NB.Pauli(G, PG)),
             lambda: TB.stabilizer.clifford_rotation_map(TB.Pauli(G, PG)), NB, TB)
        # states
        tg, tp, r = O.random_tableau(rng, N)
        og, op = gen.commuting_hermitian_list(rng, tg, tp, r, 3)
        sc = {"rows": [O.show(x, y) for x, y in zip(tg, tp)], "r": r, "obs": [O.show(x, y) for x, y in zip(og, op)]}
        Sa, Sb = NB.State(tg.copy(), tp.copy(), r), TB.State(tg.copy(), tp.copy(), r)
        both(rec, "c.StabilizerState.to_map", sc, lambda: Sa.to_map(), lambda: Sb.to_map(), NB, TB)
        both(rec, "c.StabilizerState.copy", sc, lambda: Sa.copy(), lambda: Sb.copy(), NB, TB)
        both(rec, "c.StabilizerState.expect.list", sc, lambda: Sa.expect(NB.PauliList(og, op)), lambda: Sb.expect(TB.PauliList(og, op)), NB, TB)
        both(rec, "c.StabilizerState.expect.poly", sc, lambda: complex(Sa.expect(Ha)), lambda: complex(TB.cnp(Sb.expect(Hb))), NB, TB)
        both(rec, "c.StabilizerState.expect.pauli", sc, lambda: complex(Sa.expect(Pa)), lambda: complex(TB.cnp(Sb.expect(Pb))), NB, TB)
        A = gen.rand_subset(rng, N, int(rng.integers(1, N + 1)))
        both(rec, "c.StabilizerState.entropy", dict(sc, A=A), lambda: float(Sa.entropy(list(A))), lambda: float(Sb.entropy(list(A))), NB, TB)
        both(rec, "c.StabilizerState.repr", sc, lambda: repr(Sa), lambda: repr(Sb), NB, TB)
        if N - r <= 4:
            both(rec, "c.StabilizerState.density_matrix", sc, lambda: Sa.density_matrix, lambda: Sb.density_matrix, NB, TB, canon=poly_canon)
        if N <= 3:
            both(rec, "c.StabilizerState.to_qutip", sc, lambda: Sa.to_qutip(), lambda: Sb.to_qutip(), NB, TB)
        Pa0, Pb0 = NB.State(tg.copy(), tp.copy(), 0), TB.State(tg.copy(), tp.copy(), 0)
        s2 = O.random_tableau(rng, N) if it % 2 else (tg.copy(), (tp + 2 * rng.integers(0, 2, 2 * N)) % 4, int(rng.integers(0, N + 1)))
        both(rec, "c.StabilizerState.expect.state", sc, lambda: float(Pa0.expect(NB.State(*s2))), lambda: float(Pb0.expect(TB.State(*s2))), NB, TB)
        bits = rng.integers(0, 2, N)
        both(rec, "c.StabilizerState.get_prob", dict(sc, bits=bits), lambda: float(Pa0.get_prob(np.array(bits))), lambda: float(Pb0.get_prob(TB.torch.tensor(bits))), NB, TB)
        for name in ("zero_state", "one_state", "ghz_state", "maximally_mixed_state"):
            both(rec, "c.ctor." + name, N, lambda: getattr(NB.stabilizer, name)(N), lambda: getattr(TB.stabilizer, name)(N), NB, TB, N > 1)
        ig, ip = gen.independent_commuting(rng, N, int(rng.integers(1, N + 1)))
        both(rec, "c.ctor.stabilizer_state", [O.show(x, y) for x, y in zip(ig, ip)], lambda: NB.stabilizer.stabilizer_state(NB.PauliList(ig, ip)),
             lambda: TB.stabilizer.stabilizer_state(TB.PauliList(ig, ip)), NB, TB)
        ss = [('-' if y == 2 else '') + O.g2s(x) for x, y in zip(ig, ip)]
        both(rec, "c.ctor.stabilizer_state.strings", ss, lambda: NB.stabilizer.stabilizer_state(*ss), lambda: TB.stabilizer.stabilizer_state(*ss), NB, TB)


# ---------------------------------------------------------------- gates, layers, circuits, diagonalize
def run_circuits(shard, rec, NB, TB):
    rng = gen.rng_for(rec)
    for it in range(shard["n"]):
        N = int(rng.integers(1, 5))
        prog = PR.rand_program(rng, N, int(rng.integers(1, 12)), named=False)
        desc = {"N": N, "program": [PR.describe(s) for s in prog]}
        L = int(rng.integers(1, 5))
        gs, ps = gen.rand_list(rng, L, N), rng.integers(0, 4, L)
        tg, tp, r = O.random_tableau(rng, N)
        for s in prog[:4]:
            both(rec, "c.circuit.gate.forward", PR.describe(s), lambda: PR.make_gate(NB, s, N).forward(NB.PauliList(gs.copy(), ps.copy())),
                 lambda: PR.make_gate(TB, s, N).forward(TB.PauliList(gs.copy(), ps.copy())), NB, TB)
            both(rec, "c.circuit.gate.backward", PR.describe(s), lambda: PR.make_gate(NB, s, N).backward(NB.State(tg.copy(), tp.copy(), r)),
                 lambda: PR.make_gate(TB, s, N).backward(TB.State(tg.copy(), tp.copy(), r)), NB, TB)
            both(rec, "c.circuit.gate.compile", PR.describe(s), lambda: (lambda g: (g.forward_map, g.backward_map))(PR.make_gate(NB, s, N).compile()),
                 lambda: (lambda g: (g.forward_map, g.backward_map))(PR.make_gate(TB, s, N).compile()), NB, TB)
        for variant in CC.VARIANTS:
            for comp in CC.COMPILE:
                def runit(B_, variant=variant, comp=comp, back=False):
                    circ, _ = CC.configure(B_, "CliffordCircuit", prog, N, variant, comp)
                    o1, o2 = B_.PauliList(gs.copy(), ps.copy()), B_.State(tg.copy(), tp.copy(), r)
                    if back:
                        circ.backward(o1), circ.backward(o2)
                    else:
                        circ.forward(o1), circ.forward(o2)
                    layers = [[tuple(int(q) for q in g.qubits) for g in l.gates] for l in circ.layers_forward()]
                    maps = (circ.forward_map, circ.backward_map) if comp == "circuit" else None
                    return o1, o2, repr(layers), maps
                both(rec, "c.circuit.forward.%s.%s" % (variant, comp), desc, lambda: runit(NB), lambda: runit(TB), NB, TB)
                both(rec, "c.circuit.backward.%s.%s" % (variant, comp), desc, lambda: runit(NB, back=True), lambda: runit(TB, back=True), NB, TB)
        # ONE live circuit per backend grown in stages: take, compile, take more (gates that slide into earlier layers), compile again
        def staged(B_):
            circ = B_.circuit.identity_circuit(N)
            h = max(1, len(prog) // 2)
            for s_ in prog[:h]:
                circ.take(PR.make_gate(B_, s_, N))
            circ.compile(N)
            o0 = B_.PauliList(gs.copy(), ps.copy())
            circ.forward(o0)
            for s_ in prog[h:]:
                circ.take(PR.make_gate(B_, s_, N))
            circ.compile(N)
            o1, o2 = B_.PauliList(gs.copy(), ps.copy()), B_.State(tg.copy(), tp.copy(), r)
            circ.forward(o1)
            circ.backward(o2)
            return o0, o1, o2, circ.forward_map
        both(rec, "c.circuit.staged", desc, lambda: staged(NB), lambda: staged(TB), NB, TB)

        # a generator gate already taken and compiled is given a new generator through the public setter and recompiled;
        # and the circuit is compiled for an explicitly larger register
        G1, G2 = gen.rand_nonid(rng, N), gen.rand_nonid(rng, N)

        def retarget(B_):
            circ = B_.circuit.identity_circuit(N)
            g = B_.circuit.CliffordGate(*range(N))
            g.set_generator(B_.Pauli(G1.copy(), 0))
            circ.take(g)
            for s_ in prog[:3]:
                circ.take(PR.make_gate(B_, s_, N))
            circ.compile(N)
            g.set_generator(B_.Pauli(G2.copy(), 2))
            circ.compile(N)
            o1 = B_.PauliList(gs.copy(), ps.copy())
            circ.forward(o1)
            o2 = B_.PauliList(gs.copy(), ps.copy())
            circ.backward(o2)
            return o1, o2, g.forward_map, g.backward_map
        both(rec, "c.circuit.retarget", dict(desc, G1=O.g2s(G1), G2=O.g2s(G2)), lambda: retarget(NB), lambda: retarget(TB), NB, TB)
        W = N + 1 + it % 2
        wg, wp = gen.rand_list(rng, 4, W), rng.integers(0, 4, 4)

        def wider(B_):
            circ = B_.circuit.identity_circuit(N)
            for s_ in prog[:5]:
                circ.take(PR.make_gate(B_, s_, N))
            o0 = B_.PauliList(wg.copy(), wp.copy())
            circ.forward(o0)
            circ.compile(W)
            o1 = B_.PauliList(wg.copy(), wp.copy())
            circ.forward(o1)
            return o0, o1, circ.forward_map
        both(rec, "c.circuit.wider", dict(desc, W=W), lambda: wider(NB), lambda: wider(TB), NB, TB)
        # povm(nsample) of a deterministic circuit: every yielded state is the same back-evolved zero state in both packages,
        # uncompiled / layer-compiled / compiled
        for comp in CC.COMPILE:
            def povm(B_, comp=comp):
                circ, _ = CC.configure(B_, "CliffordCircuit", prog, N, "built", comp)
                return [st for st in circ.povm(3)]
            both(rec, "c.circuit.povm." + comp, desc, lambda: povm(NB), lambda: povm(TB), NB, TB)
        # diagonalize: same circuits (gate qubits and generators) and same action
        g = gen.rand_nonid(rng, N)
        p = int(rng.integers(4))
        i0 = int(rng.integers(N))
        for causal in (False, True):
            if causal and not g[2 * i0:].any():
                continue

            def dz(B_, causal=causal):
                c = B_.circuit.diagonalize(B_.Pauli(g.copy(), p), i0, causal=causal)
                P = B_.Pauli(g.copy(), p)
                c.forward(P)
                gl = [[tuple(int(q) for q in gt.qubits) for gt in l.gates] for l in c.layers_forward()]
                gens = [gt.generator for l in c.layers_forward() for gt in l.gates]
                return P, repr(gl), gens
            both(rec, "c.diagonalize.pauli", [O.show(g, p), i0, causal], lambda: dz(NB), lambda: dz(TB), NB, TB)
        pg, pp, _ = O.random_tableau(rng, N, r=0)

        def ds(B_):
            c = B_.circuit.diagonalize(B_.State(pg.copy(), pp.copy(), 0))
            s = B_.State(pg.copy(), pp.copy(), 0)
            c.forward(s)
            z = c.backward(B_.stabilizer.zero_state(N))
            return s, z
        both(rec, "c.diagonalize.state", [O.show(x, y) for x, y in zip(pg[:N], pp[:N])], lambda: ds(NB), lambda: ds(TB), NB, TB)
