"""C07 Expectations, overlaps and bit-string probabilities equal the trace formulas."""
import itertools

import numpy as np

from .. import oracle as O
from .. import gen
from ..monitor import snapshot, snap_diff

RULE = ("every valid tableau for N=1 and a stride over the 34560 valid N=2 tableaux (all ranks) x every signed string x every "
        "bit string; random signed tableaux of every rank N=3..6 with hostile observables (+-stabilizers, products of "
        "stabilizers, logical operators, phases i/-i, unreduced polynomial products); pairs (pure rho, sigma of every rank); "
        "non-trivial = state not maximally mixed and observable not the identity")
ASSUMPTIONS = ["PauliList observables are Hermitian (phase 0 or 2); Pauli/monomial/polynomial observables carry any phase",
               "overlap and get_prob are judged on pure receivers only; the documented NotImplementedError on mixed receivers is counted",
               "dense oracle Tr(rho M) for N<=6"]
REQUIRED_SUBS = ["exp.list", "exp.pauli", "exp.poly", "exp.state", "prob.value", "prob.sum", "query.pure", "live.exp", "live.track"]
REQUIRED_CALLS = ["StabilizerState.expect", "StabilizerState.get_prob"]


def shards(tier):
    q = tier == "quick"
    out = [
        {"name": "small.np.interp", "mode": "interp", "backend": "np", "fn": "small", "stride": 96 if q else 8},
        {"name": "small.np.jit", "mode": "jit", "backend": "np", "fn": "small", "stride": 24 if q else 2},
        {"name": "small.torch", "mode": "jit", "backend": "torch", "fn": "small", "stride": 384 if q else 32},
        {"name": "rand.np.jit", "mode": "jit", "backend": "np", "fn": "rand", "n": 500 if q else 30000},
        {"name": "forms.np.jit", "mode": "jit", "backend": "np", "fn": "rand", "n": 150 if q else 8000, "forms": 1},
        {"name": "rand.np.interp", "mode": "interp", "backend": "np", "fn": "rand", "n": 120 if q else 3000},
        {"name": "rand.torch", "mode": "jit", "backend": "torch", "fn": "rand", "n": 60 if q else 2500},
        {"name": "live.np.jit", "mode": "jit", "backend": "np", "fn": "live", "n": 40 if q else 2500},
        {"name": "live.np.interp", "mode": "interp", "backend": "np", "fn": "live", "n": 12 if q else 400},
        {"name": "live.torch", "mode": "jit", "backend": "torch", "fn": "live", "n": 10 if q else 400},
        {"name": "big.np.jit", "mode": "jit", "backend": "np", "fn": "big", "n": 2 if q else 40},
        {"name": "big.np.interp", "mode": "interp", "backend": "np", "fn": "big", "n": 1 if q else 4},
        {"name": "big.torch", "mode": "jit", "backend": "torch", "fn": "big", "n": 1 if q else 6},
        {"name": "forms.torch", "mode": "jit", "backend": "torch", "fn": "rand", "n": 40 if q else 1200, "forms": 1},
    ]
    if not q:
        for k in range(4):
            out.append({"name": "rand.np.jit.%d" % k, "mode": "jit", "backend": "np", "fn": "rand", "n": 30000})
    return out


def run(shard, rec, B):
    globals()["run_" + shard["fn"]](shard, rec, B)


def _show(g, p):
    return [O.show(a, b) for a, b in zip(g, p)]


def _num(B, x):
    try:
        return complex(B.cnp(x).reshape(-1)[0]) if np.ndim(B.cnp(x)) else complex(B.cnp(x))
    except Exception:
        return complex(x)


def check_state(rec, B, tg, tp, r, obs_g, obs_p, rng, bits=True, polys=2, dense_R=None):
    """all C07 clauses on one tableau with Hermitian observable list (obs_g, obs_p)."""
    N = tg.shape[1] // 2
    R = dense_R if dense_R is not None else O.rho(tg, tp, r)
    S = B.State(tg.copy(), tp.copy(), r)
    sc = {"rows": _show(tg, tp), "r": r}
    before = snapshot(S)
    nt_state = r < N
    tol = max(B.tol, 1e-9)
    # --- list of Hermitian observables
    L = B.PauliList(obs_g.copy(), obs_p.copy())
    if B.name == "np" and rng.integers(3) == 0:
        # queries only read: the state and the observables may live in read-only arrays
        B.freeze(S), B.freeze(L)
        sc = dict(sc, arrays="read-only")
    ok, xs = rec.attempt("exp.list", sc, lambda: S.expect(L))
    want = np.array([np.trace(R @ O.dense(g, p)).real for g, p in zip(obs_g, obs_p)])
    if ok:
        got = B.npf(xs).astype(float).reshape(-1)
        good = got.shape == want.shape and np.allclose(got, want, atol=1e-6)
        rec.check("exp.list", bool(good), {"state": sc, "obs": _show(obs_g[:12], obs_p[:12]), "L": len(obs_g)},
                  nt_state and bool(obs_g.any()), expected=np.round(want).astype(int)[:16], observed=got[:16])
        lg, lp = B.gsps(L)
        rec.check("query.pure", np.array_equal(lg, obs_g) and np.array_equal(lp, obs_p % 4), sc, nt_state)
    # --- single operators with all four phases (Pauli; monomial where the backend has one)
    for t in range(min(4, len(obs_g))):
        j = int(rng.integers(len(obs_g)))
        p = int(rng.integers(4))
        wantc = (1j ** p) * np.trace(R @ O.dense(obs_g[j], 0))
        P = B.Pauli(obs_g[j].copy(), p)
        case = {"state": sc, "obs": O.show(obs_g[j], p)}
        ok, x = rec.attempt("exp.pauli", case, lambda: S.expect(P))
        if ok:
            rec.check("exp.pauli", abs(_num(B, x) - wantc) < 1e-6, case, nt_state and bool(obs_g[j].any()),
                      expected=wantc, observed=_num(B, x), tags={"phase": p})
        if hasattr(B.paulialg, "PauliMonomial"):
            c = complex(gen.rand_coeffs(rng, 1)[0])
            ok, x = rec.attempt("exp.mono", case, lambda: S.expect(c * B.Pauli(obs_g[j].copy(), p).as_monomial()))
            if ok:
                rec.check("exp.mono", abs(_num(B, x) - c * wantc) < 1e-6 * (1 + abs(c)), dict(case, c=c), nt_state and bool(obs_g[j].any()),
                          expected=c * wantc, observed=_num(B, x))
    # --- polynomials: arbitrary phases, complex coefficients, repeated strings, unreduced products
    for t in range(polys):
        Lp = int(rng.integers(1, 6))
        idx = rng.integers(0, len(obs_g), Lp)
        gs = obs_g[idx].copy()
        if rng.integers(2):
            gs[int(rng.integers(Lp))] = gen.rand_string(rng, N)
        ps = rng.integers(0, 4, Lp)
        cs = gen.rand_coeffs(rng, Lp)
        H = B.Poly(gs, ps, cs)
        if t % 2 == 1:
            g2 = obs_g[rng.integers(0, len(obs_g), 2)]
            ok, H = rec.attempt("exp.poly.build", sc, lambda: B.Poly(gs, ps, cs) @ B.Poly(g2, rng.integers(0, 4, 2), gen.rand_coeffs(rng, 2)))
            if not ok:
                continue
        hg, hp, hc = B.np(H.gs), B.ph(H.ps), B.cnp(H.cs)
        wantc = np.trace(R @ O.dense_poly(hg, hp, hc))
        case = {"state": sc, "poly": [[O.show(g, p), c] for g, p, c in zip(hg[:8], hp[:8], hc[:8])]}
        ok, x = rec.attempt("exp.poly", case, lambda: S.expect(H))
        if ok:
            rec.check("exp.poly", abs(_num(B, x) - wantc) < 1e-5 * (1 + np.abs(hc).sum()), case, nt_state,
                      expected=wantc, observed=_num(B, x), tags={"odd_phase_terms": bool(np.any(hp % 2))})
            # the observable is an argument: unchanged by the query, and asking again gives the same answer
            ok2, x2 = rec.attempt("exp.poly", case, lambda: S.expect(H))
            h2 = (B.np(H.gs), B.ph(H.ps), B.cnp(H.cs))
            rec.check("query.pure.arg", np.array_equal(h2[0], hg) and np.array_equal(h2[1], hp) and np.allclose(h2[2], hc, atol=1e-7)
                      and ok2 and abs(_num(B, x2) - _num(B, x)) < 1e-6 * (1 + abs(_num(B, x))), case, nt_state,
                      expected="polynomial unchanged, same value on the second call", observed={"second": _num(B, x2) if ok2 else None})
    # --- coefficients handed over as REAL numbers (a float array / tensor given to set_cs) next to odd phases: the value is complex
    Lp = int(rng.integers(1, 4))
    idx = rng.integers(0, len(obs_g), Lp)
    gs_, ps_ = obs_g[idx].copy(), rng.integers(0, 4, Lp)
    ps_[0] = 1 + 2 * int(rng.integers(2))
    cr = np.round(rng.normal(size=Lp) + 1.5, 3)
    Hr = B.Poly(gs_, ps_, cr.astype(complex))
    Hr.set_cs(np.asarray(cr, dtype=np.float64) if B.name == "np" else B.torch.tensor(cr, dtype=B.torch.float32))
    wantc = np.trace(R @ O.dense_poly(gs_, ps_, cr.astype(complex)))
    case = {"state": sc, "poly": [[O.show(g, p), float(c)] for g, p, c in zip(gs_, ps_, cr)], "coefficients": "real dtype"}
    ok, x = rec.attempt("exp.poly.realcs", case, lambda: S.expect(Hr))
    if ok:
        rec.check("exp.poly.realcs", abs(_num(B, x) - wantc) < 1e-5 * (1 + np.abs(cr).sum()), case, nt_state and abs(wantc) > 1e-9,
                  expected=wantc, observed=_num(B, x))
    # --- coefficients of any magnitude: the expectation is linear in them (relative, not absolute, accuracy)
    for scale in (1e-12, 1e-34, 1e+9):
        Lp = int(rng.integers(1, 4))
        idx = rng.integers(0, len(obs_g), Lp)
        gs_, ps_ = obs_g[idx].copy(), rng.integers(0, 4, Lp)
        cs_ = (gen.rand_coeffs(rng, Lp) + 0.3) * scale
        if B.name == "torch" and scale < 1e-30:
            continue     # below complex64's range
        wantc = np.trace(R @ O.dense_poly(gs_, ps_, cs_ / scale)) * scale
        case = {"state": sc, "poly": [[O.show(g, p), c] for g, p, c in zip(gs_, ps_, cs_)], "scale": scale}
        ok, x = rec.attempt("exp.poly.scale", case, lambda: S.expect(B.Poly(gs_, ps_, cs_)))
        if ok:
            rec.check("exp.poly.scale", abs(_num(B, x) - wantc) <= (1e-9 if B.name == "np" else 1e-4) * np.abs(cs_).sum(), case, nt_state and abs(wantc) > 0,
                      expected=wantc, observed=_num(B, x))
    # --- the observable is a live object too: asked, changed in place (rotation / map), asked again
    Lp = int(rng.integers(1, 4))
    idx = rng.integers(0, len(obs_g), Lp)
    lg_, lp_, lc_ = obs_g[idx].copy(), rng.integers(0, 4, Lp), gen.rand_coeffs(rng, Lp)
    Hl = B.Poly(lg_.copy(), lp_.copy(), lc_.copy())
    cur = (lg_, lp_)
    for stage in range(3):
        wantc = np.trace(R @ O.dense_poly(cur[0], cur[1], lc_))
        ok, x = rec.attempt("exp.poly.live", sc, lambda: S.expect(Hl))
        if ok:
            rec.check("exp.poly.live", abs(_num(B, x) - wantc) < 1e-5 * (1 + np.abs(lc_).sum()), {"state": sc, "stage": stage, "poly": [[O.show(g, p), c] for g, p, c in zip(cur[0], cur[1], lc_)]},
                      nt_state, expected=wantc, observed=_num(B, x))
        if stage == 0:
            G, PG = gen.rand_nonid(rng, N), 2 * int(rng.integers(2))
            Hl.rotate_by(B.Pauli(G, PG))
            cur = O.rot_image(G, PG, cur[0], cur[1])
        elif stage == 1:
            mg_, mp_ = O.random_map(rng, N)
            Hl.transform_by(B.Map(mg_, mp_))
            cur = O.map_image_list(mg_, mp_, cur[0], cur[1])
    # --- overlaps with other states (pure receiver) / documented refusal (mixed receiver)
    for t in range(2):
        sg, sp, sr = O.random_tableau(rng, N) if t else (tg.copy(), tp.copy(), int(rng.integers(0, N + 1)))
        if t == 0:
            sp = (sp + 2 * rng.integers(0, 2, 2 * N) * (rng.integers(2))) % 4
        Sg = B.State(sg.copy(), sp.copy(), sr)
        case = {"rho": sc, "sigma": {"rows": _show(sg, sp), "r": sr}}
        sb = snapshot(Sg)
        if r == 0:
            ok, x = rec.attempt("exp.state", case, lambda: S.expect(Sg))
            if ok:
                wantc = np.trace(R @ O.rho(sg, sp, sr)).real
                rec.check("exp.state", abs(_num(B, x) - wantc) < 1e-6, case, True, expected=wantc, observed=_num(B, x))
                rec.check("query.pure.arg", not snap_diff(sb, snapshot(Sg)), case, True)
        else:
            try:
                S.expect(Sg)
                rec.event("mixed-receiver overlap returned a value (not judged)")
            except NotImplementedError:
                rec.refusal("NotImplementedError:overlap with mixed receiver")
            except Exception as e:
                rec.check("exp.state.refusal", False, case, True, expected="value or NotImplementedError", observed=type(e).__name__)
    # --- bit-string probabilities
    if bits and r == 0:
        tot = 0.0
        allb = list(itertools.product((0, 1), repeat=N)) if N <= 4 else [tuple(rng.integers(0, 2, N)) for _ in range(8)]
        good_all = True
        for b in allb:
            ok, x = rec.attempt("prob.value", {"state": sc, "bits": b}, lambda: S.get_prob(np.array(b) if B.name == "np" else B.torch.tensor(b)))
            if not ok:
                good_all = False
                break
            wantp = float(np.real(np.trace(R @ O.basis_proj(b))))
            rec.check("prob.value", abs(_num(B, x) - wantp) < 1e-6, {"state": sc, "bits": b}, True, expected=wantp, observed=_num(B, x),
                      tags={"ones": int(sum(b))})
            tot += _num(B, x).real
        if N <= 4 and good_all:
            rec.check("prob.sum", abs(tot - 1) < 1e-6, sc, True, expected=1.0, observed=tot)
    rec.check("query.pure", not snap_diff(before, snapshot(S)), sc, nt_state, observed=snap_diff(before, snapshot(S)))


def _signed_strings(N):
    S = O.all_strings(N)
    return np.repeat(S, 2, axis=0), np.tile(np.array([0, 2]), len(S))


def run_small(shard, rec, B):
    rng = gen.rng_for(rec)
    for N in (1, 2):
        og, op = _signed_strings(N)
        maps = list(O.all_maps(N))
        st = 1 if N == 1 else shard["stride"]
        n = 0
        for k in range(0, len(maps), st):
            mg, mp = maps[(k + 7 * rec.seed) % len(maps)]
            tg, tp, _ = O.tableau_from_map(mg, mp)
            for r in range(N + 1):
                check_state(rec, B, tg, tp, r, og, op, rng)
                n += 1
        rec.space("valid tableaux N=%d (stride %d) x all signed strings x all bit strings" % (N, st), n, exhaustive=(st == 1))


def run_rand(shard, rec, B):
    rng = gen.rng_for(rec)
    Ns = [3, 3, 4, 4, 5, 6] if B.name == "np" else [3, 3, 4]
    for N in (1, 3):
        tg, tp, r = O.random_tableau(rng, N)
        S = B.State(tg.copy(), tp.copy(), r)
        ok, xs = rec.attempt("exp.empty", N, lambda: S.expect(B.PauliList(np.zeros((0, 2 * N), dtype=np.int64), np.zeros(0, dtype=np.int64))))
        if ok:
            rec.check("exp.empty", B.npf(xs).reshape(-1).shape == (0,), ["empty", N], False)
    for t in range(shard["n"]):
        N = Ns[t % len(Ns)]
        tg, tp, r = O.random_tableau(rng, N, r=[0, 0, None][t % 3])
        og, op = [], []
        while len(og) < 10:
            a, b = gen.commuting_hermitian_list(rng, tg, tp, r, 3)
            og.extend(a)
            op.extend(b)
        check_state(rec, B, tg, tp, r, np.stack(og), np.array(op), rng, bits=(N <= 4 or t % 5 == 0))
    if B.name == "torch":
        st = B.stabilizer
        for t in range(max(6, shard["n"] // 6)):
            N = int(rng.integers(1, 4))
            r = int(rng.integers(0, N + 1))
            tabs = [O.random_tableau(rng, N, r=r) for _ in range(3)]
            og, op = [], []
            for g, p, _ in tabs:
                a, b = gen.commuting_hermitian_list(rng, g, p, r, 2)
                og.extend(a)
                op.extend(b)
            og, op = np.stack(og), np.array(op)
            states = [B.State(g.copy(), p.copy(), r) for g, p, _ in tabs]
            ok, X = rec.attempt("exp.vectorizable", [N, r, t], lambda: st.vectorizable_expct(states, B.PauliList(og.copy(), op.copy())))
            if ok:
                want = np.array([[np.trace(O.rho(g, p, r) @ O.dense(a, b)).real for a, b in zip(og, op)] for g, p, _ in tabs])
                got = B.npf(X).astype(float)
                rec.check("exp.vectorizable", got.shape == want.shape and np.allclose(got, want, atol=1e-5),
                          {"N": N, "r": r, "obs": _show(og, op), "states": [_show(g, p) for g, p, _ in tabs]}, True,
                          expected=want, observed=got)


def run_live(shard, rec, B):
    """expectations / probabilities re-asked of one live state object after every in-place operation of a history."""
    from .. import live
    rng = gen.rng_for(rec)
    for t in range(shard["n"]):
        N = int(rng.integers(1, 5))

        def query(S, G, hist, step):
            R = G.rho()
            L = int(rng.integers(1, 5))
            og = gen.rand_list(rng, L, N)
            if G.gens and rng.integers(2):
                og[0] = G.gens[int(rng.integers(len(G.gens)))][0]
            op = 2 * rng.integers(0, 2, L)
            case = {"N": N, "history": hist[-6:], "obs": _show(og, op)}
            ok, xs = rec.attempt("live.exp", case, lambda: S.expect(B.PauliList(og.copy(), op.copy())))
            if ok:
                want = np.array([np.trace(R @ O.dense(g, p)).real for g, p in zip(og, op)])
                got = B.npf(xs).astype(float).reshape(-1)
                rec.check("live.exp", got.shape == want.shape and np.allclose(got, want, atol=1e-6), case, True, expected=want, observed=got)
            cs = gen.rand_coeffs(rng, L)
            pp = rng.integers(0, 4, L)
            ok, x = rec.attempt("live.exp.poly", case, lambda: S.expect(B.Poly(og.copy(), pp.copy(), cs.copy())))
            if ok:
                want = np.trace(R @ O.dense_poly(og, pp, cs))
                rec.check("live.exp.poly", abs(_num(B, x) - want) < 1e-5 * (1 + np.abs(cs).sum()), case, True, expected=want, observed=_num(B, x))
            if G.r == 0:
                b = rng.integers(0, 2, N)
                ok, x = rec.attempt("live.prob", case, lambda: S.get_prob(np.array(b) if B.name == "np" else B.torch.tensor(b)))
                if ok:
                    want = float(np.real(np.trace(R @ O.basis_proj(b))))
                    rec.check("live.prob", abs(_num(B, x) - want) < 1e-6, dict(case, bits=b), True, expected=want, observed=_num(B, x))
                sg, sp, sr = O.random_tableau(rng, N)
                ok, x = rec.attempt("live.overlap", case, lambda: S.expect(B.State(sg.copy(), sp.copy(), sr)))
                if ok:
                    want = np.trace(R @ O.rho(sg, sp, sr)).real
                    rec.check("live.overlap", abs(_num(B, x) - want) < 1e-6, case, True, expected=want, observed=_num(B, x))
        live.walk(rec, B, rng, N, int(rng.integers(4, 16)), query)


def run_big(shard, rec, B):
    """wide registers (N up to 130): expectations by the group oracle, overlaps and bit-string probabilities down to 2^-130
    by sequential group projection (no dense matrices exist at these sizes)."""
    rng = gen.rng_for(rec)
    Ns = [31, 32, 33, 62, 63, 64, 65, 66, 70, 127, 128, 130] if B.name == "np" else [33, 65]
    # analytically known values far below float32's smallest number: |+>^N against bit strings and against I/2^r x |0..0>
    for N in ((150, 160, 200, 300) if shard["n"] >= 1 else ()):
        tg = np.zeros((2 * N, 2 * N), dtype=np.int64)
        tg[np.arange(N), 2 * np.arange(N)] = 1
        tg[N + np.arange(N), 2 * np.arange(N) + 1] = 1
        S = B.State(tg.copy(), np.zeros(2 * N, dtype=np.int64), 0)
        b = rng.integers(0, 2, N)
        ok, x = rec.attempt("prob.value", ["plus", N], lambda: S.get_prob(np.array(b) if B.name == "np" else B.torch.tensor(b)))
        if ok:
            got = _num(B, x).real
            rec.check("prob.value", got > 0 and abs(np.log2(got) + N) < 1e-6, ["|+>^N bit string", N], True, expected="2^-%d" % N, observed=got)
        r = int(rng.integers(1, 20))
        zg = np.zeros((2 * N, 2 * N), dtype=np.int64)
        zg[np.arange(N), 2 * np.arange(N) + 1] = 1
        zg[N + np.arange(N), 2 * np.arange(N)] = 1
        ok, x = rec.attempt("exp.state", ["plus vs partial zero", N, r], lambda: S.expect(B.State(zg.copy(), np.zeros(2 * N, dtype=np.int64), r)))
        if ok:
            got = _num(B, x).real
            rec.check("exp.state", got > 0 and abs(np.log2(got) + N) < 1e-6, ["|+>^N vs I/2^r x |0..0>", N, r], True, expected="2^-%d" % N, observed=got)
    for t in range(shard["n"]):
        for N in Ns:
            kind = int(rng.integers(3))
            if kind == 0:     # |+...+>: every bit string has probability 2^-N
                tg = np.zeros((2 * N, 2 * N), dtype=np.int64)
                for a in range(N):
                    tg[a, 2 * a] = 1
                    tg[N + a, 2 * a + 1] = 1
                tp = np.zeros(2 * N, dtype=np.int64)
                r = 0
            else:
                r = 0 if kind == 1 else int(rng.integers(1, N))
                tg, tp, _ = O.random_tableau(rng, N, r=r, nrot=(N + 4 if kind == 1 else 6))
            S = B.State(tg.copy(), tp.copy(), r)
            G = O.GroupState.from_tableau(tg, tp, r)
            L = 6
            og = np.stack([gen.sparse_string(rng, N) for _ in range(L)])
            for j in range(min(3, N - r)):
                og[j] = tg[r + int(rng.integers(N - r))]
            op = 2 * rng.integers(0, 2, L)
            sc = {"N": N, "r": r, "kind": kind}
            ok, xs = rec.attempt("exp.list", sc, lambda: S.expect(B.PauliList(og.copy(), op.copy())))
            if ok:
                want = np.array([np.real(G.expect(g, p)) for g, p in zip(og, op)])
                got = B.npf(xs).astype(float).reshape(-1)
                rec.check("exp.list", got.shape == want.shape and np.allclose(got, want), dict(sc, obs=_show(og, op)), True, expected=want, observed=got)
            if r == 0:
                b = rng.integers(0, 2, N)
                G2 = G.copy()
                pr = 1.0
                for a in range(N):
                    z = np.zeros(2 * N, dtype=np.int64)
                    z[2 * a + 1] = 1
                    pr *= G2.project(z, 0, int(b[a]))
                    if pr == 0:
                        break
                ok, x = rec.attempt("prob.value", sc, lambda: S.get_prob(np.array(b) if B.name == "np" else B.torch.tensor(b)))
                if ok:
                    got = _num(B, x).real
                    tol = 1e-9 if B.name == "np" else 1e-5
                    rec.check("prob.value", abs(got - pr) <= tol * pr + (0 if pr else 1e-300) and (pr > 0 or got == 0), dict(sc, bits=b), True,
                              expected=pr, observed=got, tags={"log2p": float(np.log2(pr)) if pr else None})
                sg, sp, sr = O.random_tableau(rng, N, nrot=4)
                if rng.integers(2):
                    sg, sp, sr = tg.copy(), tp.copy(), int(rng.integers(0, N))
                G3 = G.copy()
                pr = 1.0
                for a in range(sr, N):
                    pr *= G3.project(sg[a], sp[a], 0)
                    if pr == 0:
                        break
                pr = pr / 2.0 ** sr
                ok, x = rec.attempt("exp.state", sc, lambda: S.expect(B.State(sg.copy(), sp.copy(), sr)))
                if ok:
                    got = _num(B, x).real
                    tol = 1e-9 if B.name == "np" else 1e-5
                    rec.check("exp.state", abs(got - pr) <= tol * pr and (pr > 0 or got == 0), dict(sc, sigma_r=sr), True, expected=pr, observed=got)
