"""C06 Measurement follows the Born rule and the projection postulate."""
import itertools

import numpy as np

from .. import oracle as O
from .. import gen
from .. import env
from ..monitor import snapshot, snap_diff

RULE = ("valid tableaux of every rank (all N=1, stride over the 34560 N=2 tableaux) x every signed observable incl. +-I x "
        "observed outcome, commuting lists up to length N+2 with duplicates, dependent products, +-stabilizers and logical "
        "operators; interpreted mode scripts numpy.random.randint so that all 2^k coin schedules of a k-observable "
        "measurement are enumerated; JIT mode counts both outcome arms; repeated and rotation-interleaved measurements; "
        "non-trivial = observable not +-identity and state not maximally mixed; classes determined / anti / logical / "
        "anti-with-standby-row-first must all be populated")
ASSUMPTIONS = ["observable lists are commuting and Hermitian", "post-states are compared as density matrices (dense, N<=5) "
               "and as canonical signed stabilizer groups (any N), never by choice of generators or destabilizers",
               "fairness: exact binomial tail, alpha=1e-9, on the aggregated random-class outcomes"]
REQUIRED_SUBS = ["det.outcome", "log2prob", "post.state", "post.rank", "repeat", "rand.arms", "schedule.*", "post.dense", "rand.positions"]
REQUIRED_CALLS = ["StabilizerState.measure", "class.det", "class.anti", "class.logical", "class.anti_standby_first"]


def shards(tier):
    q = tier == "quick"
    out = [
        {"name": "sched.np.interp", "mode": "interp", "backend": "np", "fn": "sched", "n": 150 if q else 4000},
        {"name": "rand.np.jit", "mode": "jit", "backend": "np", "fn": "rand", "n": 1500 if q else 80000},
        {"name": "forms.np.jit", "mode": "jit", "backend": "np", "fn": "rand", "n": 500 if q else 20000, "forms": 1},
        {"name": "rand.np.interp", "mode": "interp", "backend": "np", "fn": "rand", "n": 250 if q else 6000},
        {"name": "walk.np.jit", "mode": "jit", "backend": "np", "fn": "walk", "n": 60 if q else 3000},
        {"name": "big.np.jit", "mode": "jit", "backend": "np", "fn": "big", "n": 2 if q else 40},
    ]
    # every valid N<=2 tableau is a shard-disjoint union: shard i takes maps k = i (mod parts)
    for i in range(4):
        out.append({"name": "small.np.interp.%d" % i, "mode": "interp", "backend": "np", "fn": "small", "stride": 96 if q else 24,
                    "part": i, "parts": 4})
    for i in range(8):
        out.append({"name": "small.np.jit.%d" % i, "mode": "jit", "backend": "np", "fn": "small", "stride": 24 if q else 1,
                    "part": i, "parts": 8})
    if not q:
        for k in range(6):
            out.append({"name": "rand.np.jit.%d" % k, "mode": "jit", "backend": "np", "fn": "rand", "n": 80000})
        out.append({"name": "sched.np.interp.1", "mode": "interp", "backend": "np", "fn": "sched", "n": 4000})
    return out


def run(shard, rec, B):
    globals()["run_" + shard["fn"]](shard, rec, B)
    finish(rec)


def _show(g, p):
    return [O.show(a, b) for a, b in zip(g, p)]


class Coins(object):
    """scripts the kernel's numpy.random.randint(2) draws (interpreted mode only)."""
    intercepted = 0

    def __init__(self, bits):
        self.bits = list(bits)
        self.used = 0

    def __enter__(self):
        self.orig = np.random.randint
        np.random.randint = self.fake
        return self

    def __exit__(self, *a):
        np.random.randint = self.orig

    def fake(self, *a, **k):
        if (a == (2,) or a == (0, 2)) and not k:
            b = self.bits[self.used] if self.used < len(self.bits) else 0
            self.used += 1
            Coins.intercepted += 1
            return b
        return self.orig(*a, **k)


def classify_case(tg, tp, r, g):
    """structural class of a single observable string w.r.t. the tableau (used for evidence and known-finding tags)."""
    N = tg.shape[1] // 2
    a_active = any(O.anti(tg[a], g) for a in range(r, N))
    a_standby_first = any(O.anti(tg[a], g) for a in range(0, r))
    return a_active, a_standby_first


def measure_case(rec, B, tg, tp, r, og, op, coins=None, dense=True, repeat=True, tagx=None):
    """one call of the real StabilizerState.measure, replayed on the oracle with the observed outcomes."""
    N = tg.shape[1] // 2
    S = B.State(tg.copy(), tp.copy(), r)
    L = B.PauliList(og.copy(), op.copy())
    sc = {"rows": _show(tg, tp), "r": r}
    case = {"state": sc, "obs": _show(og, op)}
    if coins is not None:
        case["coins"] = list(coins)
    nt = r < N and any(g.any() for g in og)
    lb = snapshot(L)
    if coins is not None:
        with Coins(coins) as C:
            ok, res = rec.attempt("measure", case, lambda: S.measure(L))
    else:
        ok, res = rec.attempt("measure", case, lambda: S.measure(L))
    if not ok:
        return None
    out, l2p = res
    out = np.asarray(out).astype(int).reshape(-1)
    lg, lp, lr = B.state(S)
    G = O.GroupState.from_tableau(tg, tp, r)
    Rho = O.rho(tg, tp, r) if dense and N <= 5 else None
    nrand = 0
    good_out = True
    pth = 1.0
    tags = {"standby_first_anti": False}
    for k in range(len(og)):
        kind, bit = G.classify(og[k], op[k])
        rec.event("class." + kind)
        if kind == "det":
            okk = int(out[k]) == int(bit)
            rec.check("det.outcome", okk, dict(case, k=k), nt, expected=int(bit), observed=int(out[k]))
            good_out = good_out and okk
        else:
            nrand += 1
            rec.bump("arm.%d" % int(out[k]))
            if out[k] not in (0, 1):
                rec.check("rand.value", False, dict(case, k=k), nt, expected="0 or 1", observed=int(out[k]))
                return None
        pr = G.project(og[k], op[k], int(out[k]))
        pth *= pr
        if Rho is not None and pr > 0:
            Pi = (np.eye(2 ** N) + (-1) ** int(out[k]) * O.dense(og[k], op[k])) / 2
            pd = np.trace(Pi @ Rho).real
            if abs(pd - pr) > 1e-9:
                rec.inconclusive("oracle layers disagree on outcome probability")
            Rho = Pi @ Rho @ Pi / pd
    # structural tags for the whole list, from the first observable that is random
    a_act, a_sb = classify_case(tg, tp, r, og[0])
    tags["standby_first_anti"] = bool(a_act and a_sb)
    if a_act and a_sb:
        rec.event("class.anti_standby_first")
    if pth == 0:
        rec.check("det.outcome", False, case, nt, expected="a possible outcome", observed=out)
        return None
    rec.check("log2prob", abs(float(l2p) - (-nrand)) < 1e-9, case, nt, expected=-nrand, observed=float(l2p), tags=tags)
    key_lib = O.state_key(lg, lp, lr)
    key_or = G.key()
    probs = O.tableau_problems(lg, lp, lr)
    rec.check("post.valid", not probs, case, nt, observed=probs, tags=tags)
    rec.check("post.rank", lr == G.r, case, nt, expected=G.r, observed=lr, tags=tags)
    rec.check("post.state", key_lib == key_or, case, nt, expected={"r": key_or[0], "group": [O.show(np.array(g), p) for g, p in key_or[1]]},
              observed={"r": key_lib[0], "group": [O.show(np.array(g), p) for g, p in key_lib[1]]}, tags=tags)
    if Rho is not None and not probs:
        rec.check("post.dense", O.close(O.rho(lg, lp, lr), Rho), case, nt, tags=tags)
    rec.check("arg.unchanged", not snap_diff(lb, snapshot(L)), case, nt)
    if repeat and not probs:
        ok, res2 = rec.attempt("repeat", case, lambda: S.measure(B.PauliList(og.copy(), op.copy())))
        if ok:
            out2 = np.asarray(res2[0]).astype(int).reshape(-1)
            g2, p2, r2 = B.state(S)
            rec.check("repeat", np.array_equal(out2, out) and abs(float(res2[1])) < 1e-12 and O.state_key(g2, p2, r2) == key_lib,
                      case, nt, expected={"out": out, "log2prob": 0}, observed={"out": out2, "log2prob": float(res2[1])}, tags=tags)
    return out, nrand


def binom_two_sided(n, k):
    """two-sided tail P(X<=k or X>=n-k) for X~Bin(n,1/2), exact in log space."""
    from math import lgamma, log, exp
    if k * 2 >= n:
        return 1.0
    logs = [lgamma(n + 1) - lgamma(i + 1) - lgamma(n - i + 1) - n * log(2) for i in range(0, k + 1)]
    m = max(logs)
    return min(1.0, 2 * exp(m) * sum(exp(x - m) for x in logs))


def finish(rec):
    a0, a1 = rec.extra.get("arm.0", 0), rec.extra.get("arm.1", 0)
    n = a0 + a1
    if n >= 50:
        # exact two-sided binomial tail
        tail = binom_two_sided(n, min(a0, a1))
        rec.check("rand.arms", a0 > 0 and a1 > 0, ["arms", rec.shard], True, observed=[a0, a1])
        if rec.mode == "jit":
            rec.check("rand.fair", tail > 1e-9, ["fair", rec.shard], True, expected="binomial tail > 1e-9", observed={"arms": [a0, a1], "tail": tail})
    rec.note("arms", [a0, a1])


def _signed_strings(N):
    S = O.all_strings(N)
    return np.repeat(S, 2, axis=0), np.tile(np.array([0, 2]), len(S))


def run_small(shard, rec, B):
    rng = gen.rng_for(rec)
    interp = env.mode() == "interp"
    for N in (1, 2):
        sg, sp = _signed_strings(N)
        maps = list(O.all_maps(N))
        st = 1 if N == 1 else shard["stride"]
        n = 0
        for idx, k in enumerate(range(0, len(maps), st)):
            if idx % shard.get("parts", 1) != shard.get("part", 0):
                continue
            mg, mp = maps[(k + 3 * rec.seed) % len(maps)]
            tg, tp, _ = O.tableau_from_map(mg, mp)
            for r in range(N + 1):
                n += 1
                for j in range(len(sg)):
                    if interp:
                        for c in (0, 1):
                            measure_case(rec, B, tg, tp, r, sg[j:j + 1], sp[j:j + 1], coins=[c], repeat=(c == 0))
                    else:
                        measure_case(rec, B, tg, tp, r, sg[j:j + 1], sp[j:j + 1])
                # commuting pairs
                for t in range(6):
                    og, op = gen.commuting_hermitian_list(rng, tg, tp, r, 2)
                    if interp:
                        for coins in itertools.product((0, 1), repeat=len(og)):
                            measure_case(rec, B, tg, tp, r, og, op, coins=coins, repeat=False)
                    else:
                        measure_case(rec, B, tg, tp, r, og, op)
        rec.space("valid tableaux N=%d (stride %d) x all signed observables (both coin values in interpreted mode)" % (N, st), n * len(sg),
                  exhaustive=(st == 1))


def oracle_outcomes(tg, tp, r, og, op):
    """all outcome vectors with non-zero probability, by branching on every undetermined observable."""
    res = set()

    def rec_(G, k, acc):
        if k == len(og):
            res.add(tuple(acc))
            return
        kind, bit = G.classify(og[k], op[k])
        if kind == "det":
            G2 = G.copy()
            rec_(G2, k + 1, acc + [bit])
        else:
            for b in (0, 1):
                G2 = G.copy()
                G2.project(og[k], op[k], b)
                rec_(G2, k + 1, acc + [b])
    rec_(O.GroupState.from_tableau(tg, tp, r), 0, [])
    return res


def run_sched(shard, rec, B):
    """interpreted mode: enumerate all coin schedules; the set of observed outcome vectors must equal the oracle's."""
    rng = gen.rng_for(rec)
    if env.mode() != "interp":
        rec.inconclusive("schedule enumeration needs interpreted mode")
        return
    for t in range(shard["n"]):
        N = [2, 3, 3, 4][t % 4]
        tg, tp, r = O.random_tableau(rng, N, r=t % (N + 1))
        L = int(rng.integers(1, 5))
        og, op = gen.commuting_hermitian_list(rng, tg, tp, r, L)
        want = oracle_outcomes(tg, tp, r, og, op)
        seen = set()
        nrands = set()
        Coins.intercepted = 0
        for coins in itertools.product((0, 1), repeat=len(og)):
            res = measure_case(rec, B, tg, tp, r, og, op, coins=coins, repeat=(sum(coins) == 0))
            if res is None:
                break
            seen.add(tuple(int(x) for x in res[0]))
            nrands.add(res[1])
        else:
            k = max(nrands)
            if k > 0 and Coins.intercepted == 0:
                # the kernel no longer draws its coin through numpy.random.randint(2): scripting is impossible, so the same
                # clause (every possible outcome vector occurs, no impossible one does) is decided by repetition instead:
                # a possible vector missing after 64*2^k fair tries has probability < e^-64
                rec.event("schedule.unscripted")
                tries = 0
                while seen != want and tries < 64 * 2 ** k:
                    tries += 1
                    res = measure_case(rec, B, tg, tp, r, og, op, repeat=False)
                    if res is None:
                        break
                    seen.add(tuple(int(x) for x in res[0]))
            else:
                rec.event("schedule.scripted")
            rec.check("schedule.%d" % len(og), seen == want, {"state": {"rows": _show(tg, tp), "r": r}, "obs": _show(og, op)}, True,
                      expected=sorted(want), observed=sorted(seen))


def run_rand(shard, rec, B):
    rng = gen.rng_for(rec)
    Ns = [3, 3, 4, 4, 5, 6, 8, 12] if env.mode() == "jit" else [3, 4, 5]
    for N in (1, 3):    # measuring nothing changes nothing and has probability one
        tg, tp, r = O.random_tableau(rng, N)
        S = B.State(tg.copy(), tp.copy(), r)
        ok, res = rec.attempt("measure.empty", N, lambda: S.measure(B.PauliList(np.zeros((0, 2 * N), dtype=np.int64), np.zeros(0, dtype=np.int64))))
        if ok:
            lg, lp, lr = B.state(S)
            rec.check("measure.empty", len(res[0]) == 0 and float(res[1]) == 0.0 and O.state_key(lg, lp, lr) == O.state_key(tg, tp, r), ["empty", N], False)
    for t in range(shard["n"]):
        N = Ns[t % len(Ns)]
        r = t % (N + 1) if t % 2 else int(rng.integers(0, N + 1))
        tg, tp, _ = O.random_tableau(rng, N, r=r)
        L = int(rng.integers(1, N + 3))
        og, op = gen.commuting_hermitian_list(rng, tg, tp, r, L)
        measure_case(rec, B, tg, tp, r, og, op, dense=(N <= 5 and t % 2 == 0))
        # the same clauses through the circuit-level entry point for Z measurements (a measurement layer)
        if t % 7 == 0:
            from .c14 import layer_case
            qs = [int(x) for x in rng.permutation(N)[:int(rng.integers(1, N + 1))]]
            layer_case(rec, B, tg, tp, r, qs)
        # a state as the observable: its active stabilizers are measured
        if t % 10 == 0:
            sg, sp, sr = O.random_tableau(rng, N)
            S = B.State(tg.copy(), tp.copy(), r)
            Sig = B.State(sg.copy(), sp.copy(), sr)
            case = {"state": {"rows": _show(tg, tp), "r": r}, "sigma": {"rows": _show(sg, sp), "r": sr}}
            ok, res = rec.attempt("measure.state_obs", case, lambda: S.measure(Sig))
            if ok and sr < N:
                out = np.asarray(res[0]).astype(int).reshape(-1)
                G = O.GroupState.from_tableau(tg, tp, r)
                pth, nr = 1.0, 0
                for k, a in enumerate(range(sr, N)):
                    kind, bit = G.classify(sg[a], sp[a])
                    nr += kind != "det"
                    pth *= G.project(sg[a], sp[a], int(out[k]))
                lg, lp, lr = B.state(S)
                rec.check("measure.state_obs", len(out) == N - sr and pth > 0 and abs(float(res[1]) + nr) < 1e-9 and O.state_key(lg, lp, lr) == G.key(),
                          case, True)


def run_walk(shard, rec, B):
    """histories interleaving measurements and rotations on one live state object, oracle tracked in parallel."""
    rng = gen.rng_for(rec)
    for t in range(shard["n"]):
        N = int(rng.integers(2, 7))
        tg, tp, r = O.random_tableau(rng, N)
        S = B.State(tg.copy(), tp.copy(), r)
        G = O.GroupState.from_tableau(tg, tp, r)
        hist = []
        for step in range(int(rng.integers(5, 40))):
            if rng.integers(3) == 0:
                Gn = gen.rand_nonid(rng, N)
                PG = 2 * int(rng.integers(2))
                S.rotate_by(B.Pauli(Gn, PG))
                G.apply_rot(Gn, PG)
                hist.append(["rot", O.show(Gn, PG)])
            else:
                cg, cp, cr = B.state(S)
                og, op = gen.commuting_hermitian_list(rng, cg, cp, cr, int(rng.integers(1, 4)))
                ok, res = rec.attempt("walk.measure", hist[-6:], lambda: S.measure(B.PauliList(og.copy(), op.copy())))
                if not ok:
                    break
                out = np.asarray(res[0]).astype(int).reshape(-1)
                nr, pth = 0, 1.0
                for k in range(len(og)):
                    kind, bit = G.classify(og[k], op[k])
                    nr += kind != "det"
                    rec.event("class." + kind)
                    if kind != "det":
                        rec.bump("arm.%d" % int(out[k]))
                    pth *= G.project(og[k], op[k], int(out[k]))
                hist.append(["measure", _show(og, op), out.tolist()])
                lg, lp, lr = B.state(S)
                good = pth > 0 and abs(float(res[1]) + nr) < 1e-9 and O.state_key(lg, lp, lr) == G.key() and not O.tableau_problems(lg, lp, lr)
                rec.check("walk", good, {"start": {"rows": _show(tg, tp), "r": r}, "history": hist[-8:], "step": step, "t": t}, True,
                          expected={"r": G.r, "log2prob": -nr}, observed={"r": lr, "log2prob": float(res[1]), "out": out})
                if not good:
                    break


def run_big(shard, rec, B):
    """wide registers (word / byte thresholds), every rank class, long commuting lists; group oracle only."""
    rng = gen.rng_for(rec)
    for t in range(shard["n"]):
        for N in [16, 31, 32, 33, 63, 64, 65, 70]:
            r = [0, 1, N // 2, N - 1, N][int(rng.integers(5))]
            tg, tp, _ = O.random_tableau(rng, N, r=r, nrot=N + 4)
            L = int(rng.integers(1, 6)) if t % 2 else int(rng.integers(N // 2, N + 3))
            og, op = gen.commuting_hermitian_list(rng, tg, tp, r, L)
            measure_case(rec, B, tg, tp, r, og, op, dense=False)
    # many undetermined observables in ONE call: every position must produce both outcomes over repetitions
    # (probability that a fair position stays constant over R runs is 2^(1-R); R=40, <=130 positions: < 3e-10 in total)
    if env.mode() == "jit":
        for N in ([72, 130] if shard["n"] <= 2 else [64, 72, 100, 130]):
            R = 40
            outs = np.zeros((R, N), dtype=np.int64)
            okall = True
            for rep in range(R):
                S = B.stabilizer.zero_state(N)
                xs = np.zeros((N, 2 * N), dtype=np.int64)
                xs[np.arange(N), 2 * np.arange(N)] = 1
                ok, res = rec.attempt("rand.positions", [N, rep], lambda: S.measure(B.PauliList(xs, np.zeros(N, dtype=np.int64))))
                if not ok:
                    okall = False
                    break
                outs[rep] = np.asarray(res[0]).astype(int)
                if abs(float(res[1]) + N) > 1e-9:
                    rec.check("log2prob", False, ["positions", N, rep], True, expected=-N, observed=float(res[1]))
            if okall:
                ones = outs.sum(0)
                const = [int(k) for k in np.nonzero((ones == 0) | (ones == R))[0]]
                rec.check("rand.positions", not const, ["positions", N, R], True, expected="both outcomes at every position within %d runs" % R,
                          observed={"constant_positions": const[:10], "n_constant": len(const)})
