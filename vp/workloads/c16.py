"""C16 Random Cliffords are valid and uniformly distributed."""
import itertools

import numpy as np

from .. import oracle as O
from .. import gen
from .. import env
from .. import stats

RULE = ("every sample of every sampler (random_clifford_map, random_pauli_map, random_clifford_state, random_pauli_state, "
        "random_bit_state, states pushed through brickwall / onsite / global random circuits) is checked for validity by the "
        "oracle (N=1..10); uniformity: exact chi-square tests (alpha 1e-9 each) of random_clifford_map over the 24 one-qubit "
        "elements, over the 720 symplectic classes and the 16 sign patterns for N=2 (plus: all 720 classes seen), of "
        "random_pauli_map(2) over its 36 classes, binomial tests of the N=3 entangling fraction (exact 2/3), of sign bits, "
        "and resampling of map-less gates; non-trivial = every sample (each is an independent draw); distinct = distinct samples")
ASSUMPTIONS = ["statistical verdicts are 'not rejected at alpha=1e-9 per test' (<= 30 tests per run); deterministic for a given VERIF_SEED",
               "detection power: any sampler whose N=2 class distribution has chi-square distance >= ~0.02 from uniform is rejected at the quick sample size; "
               "a product-only sampler reaches 36 of the 720 classes"]
REQUIRED_SUBS = ["valid.random_clifford_map", "valid.random_pauli_map", "valid.random_clifford_state", "valid.random_pauli_state",
                 "valid.rcc.*", "uniform.n1", "uniform.n2.classes", "uniform.n2.signs", "uniform.n2.coverage", "entangle.n3",
                 "paulimap.n2", "signs.fair", "resample", "uniform.rows.n3", "uniform.rows.n4", "coin.fair", "coin.positions", "coin.independent", "paulimap.independent"]


def shards(tier):
    q = tier == "quick"
    out = [
        {"name": "valid.np.jit", "mode": "jit", "backend": "np", "fn": "valid", "n": 150 if q else 6000},
        {"name": "valid.np.interp", "mode": "interp", "backend": "np", "fn": "valid", "n": 40 if q else 800},
        {"name": "valid.torch", "mode": "jit", "backend": "torch", "fn": "valid", "n": 40 if q else 1500},
        {"name": "uniform.np.jit", "mode": "jit", "backend": "np", "fn": "uniform", "n2": 120000 if q else 1000000, "n1": 20000, "n3": 4000 if q else 40000},
        {"name": "uniform.np.interp", "mode": "interp", "backend": "np", "fn": "uniform", "n2": 30000 if q else 300000, "n1": 6000, "n3": 1500 if q else 10000},
        {"name": "uniform.torch", "mode": "jit", "backend": "torch", "fn": "uniform", "n2": 25000 if q else 250000, "n1": 5000, "n3": 1200 if q else 10000},
        {"name": "coins.np.jit", "mode": "jit", "backend": "np", "fn": "coins", "R": 40 if q else 60},
        {"name": "coins.np.interp", "mode": "interp", "backend": "np", "fn": "coins", "R": 40},
    ]
    if not q:
        out.append({"name": "uniform.np.jit.1", "mode": "jit", "backend": "np", "fn": "uniform", "n2": 1000000, "n1": 50000, "n3": 40000})
    return out


def run(shard, rec, B):
    globals()["run_" + shard["fn"]](shard, rec, B)


def _show(g, p):
    return [O.show(a, b) for a, b in zip(g, p)]


def run_valid(shard, rec, B):
    st, C = B.stabilizer, B.circuit
    rng = gen.rng_for(rec)
    wide = [16, 33, 64, 65, 70] if B.name == "np" else [16, 33]
    for t in range(shard["n"]):
        N = 1 + t % 10 if B.name == "np" else 1 + t % 6
        if t % 12 == 11:
            N = wide[(t // 12) % len(wide)]
        for name in ("random_clifford_map", "random_pauli_map"):
            ok, M = rec.attempt("valid." + name, N, lambda: getattr(st, name)(N))
            if ok:
                g, p = B.gsps(M)
                rec.check("valid." + name, O.map_valid(g, p) and isinstance(M, st.CliffordMap), [name, N, t, g.tobytes().hex()[:24]], True,
                          observed=_show(g, p)[:8])
                if name == "random_pauli_map":
                    blk = all(not g[2 * a:2 * a + 2, [c for c in range(2 * N) if c // 2 != a]].any() for a in range(N))
                    rec.check("valid.random_pauli_map.product", blk, [name, N, t], True, observed=_show(g, p)[:8])
        for name in ("random_clifford_state", "random_pauli_state", "random_bit_state"):
            if not hasattr(st, name):
                continue
            r = None if name == "random_bit_state" or t % 2 else int(rng.integers(0, N + 1))
            ok, S = rec.attempt("valid." + name, [N, r], (lambda: getattr(st, name)(N)) if r is None else (lambda: getattr(st, name)(N, r)))
            if ok:
                g, p, rr = B.state(S)
                probs = O.tableau_problems(g, p, rr)
                rec.check("valid." + name, not probs and rr == (r or 0), [name, N, r, t, g.tobytes().hex()[:24]], True, observed=probs or _show(g, p)[:8])
        # states produced by the random-circuit constructors
        Nc = N if N <= 8 else 8
        circs = [("onsite", lambda: C.onsite_rcc(Nc)), ("global", lambda: C.global_rcc(min(Nc, 6)))]
        if Nc % 2 == 0:
            circs.append(("brickwall", lambda: C.brickwall_rcc(Nc, 1 + t % 4)))
        for cname, mk in circs:
            ok, circ = rec.attempt("valid.rcc." + cname, Nc, mk)
            if not ok:
                continue
            n = circ.N
            tg, tp, r = O.random_tableau(rng, n)
            S = B.State(tg.copy(), tp.copy(), r)
            ok, _ = rec.attempt("valid.rcc." + cname, [cname, n], lambda: circ.forward(S))
            if ok:
                g, p, rr = B.state(S)
                probs = O.tableau_problems(g, p, rr)
                rec.check("valid.rcc." + cname, not probs and rr == r, [cname, n, t, g.tobytes().hex()[:24]], True, observed=probs)
            Z = B.stabilizer.zero_state(n)
            ok, _ = rec.attempt("valid.rcc.%s.backward" % cname, [cname, n], lambda: circ.backward(Z))
            if ok:
                g, p, rr = B.state(Z)
                rec.check("valid.rcc.%s.backward" % cname, not O.tableau_problems(g, p, rr), [cname, n, t, "b", g.tobytes().hex()[:24]], True)


def run_uniform(shard, rec, B):
    st, C = B.stabilizer, B.circuit
    rng = gen.rng_for(rec)
    # ---- N=1: 24 elements
    idx1 = {(g.tobytes(), p.tobytes()): i for i, (g, p) in enumerate(O.all_maps(1))}
    counts = [0] * 24
    bad = 0
    n1 = shard["n1"]
    for t in range(n1):
        M = st.random_clifford_map(1)
        g, p = B.gsps(M)
        i = idx1.get((g.tobytes(), p.tobytes()))
        if i is None:
            bad += 1
        else:
            counts[i] += 1
    stat, dof, tail = stats.chi2_tail(counts)
    rec.batch("uniform.samples", n1, n1, None)
    rec.check("uniform.n1", bad == 0 and tail > stats.ALPHA, ["n1", n1], True, expected="chi-square tail > 1e-9 over 24 elements",
              observed={"counts": counts, "chi2": stat, "tail": tail, "invalid": bad})
    # ---- N=2: 720 symplectic classes x 16 sign patterns
    cls2 = {m.tobytes(): i for i, m in enumerate(O.symplectic_matrices(2))}
    if len(cls2) != 720:
        rec.inconclusive("oracle enumerated %d symplectic classes" % len(cls2))
    ccount = np.zeros(720, dtype=np.int64)
    ecount = np.zeros(720 * 16, dtype=np.int64)
    scount = np.zeros(16, dtype=np.int64)
    bitc = np.zeros(4, dtype=np.int64)
    bad = 0
    n2 = shard["n2"]
    keys = set()
    for t in range(n2):
        M = st.random_clifford_map(2)
        g, p = B.gsps(M)
        i = cls2.get(g.tobytes())
        if i is None or np.any(p % 2):
            bad += 1
            continue
        ccount[i] += 1
        s = int((p[0] // 2) * 8 + (p[1] // 2) * 4 + (p[2] // 2) * 2 + (p[3] // 2))
        scount[s] += 1
        ecount[i * 16 + s] += 1
        bitc += p // 2
        if len(keys) < 200000:
            keys.add(i * 16 + s)
    rec.batch("uniform.samples", n2, len(keys), keys)
    stat, dof, tail = stats.chi2_tail(list(ccount))
    seen = int((ccount > 0).sum())
    rec.check("uniform.n2.coverage", seen == 720 and bad == 0, ["n2.coverage", n2], True, expected="all 720 classes", observed={"seen": seen, "invalid": bad})
    rec.check("uniform.n2.classes", tail > stats.ALPHA, ["n2.classes", n2], True, expected="chi-square tail > 1e-9 over 720 classes",
              observed={"chi2": stat, "dof": dof, "tail": tail, "min": int(ccount.min()), "max": int(ccount.max()), "n": n2})
    if n2 >= 11520 * 20:     # enough samples for the whole group: chi-square over all 11520 elements
        stat, dof, tail = stats.chi2_tail(list(ecount))
        rec.check("uniform.n2.elements", tail > stats.ALPHA and int((ecount > 0).sum()) == 11520, ["n2.elements", n2], True,
                  expected="uniform over the 11520 elements of the two-qubit Clifford group", observed={"chi2": stat, "dof": dof, "tail": tail, "seen": int((ecount > 0).sum())})
    stat, dof, tail = stats.chi2_tail(list(scount))
    rec.check("uniform.n2.signs", tail > stats.ALPHA, ["n2.signs", n2], True, observed={"counts": scount.tolist(), "chi2": stat, "tail": tail})
    for k in range(4):
        tl = stats.binom_two_sided(int(scount.sum()), int(bitc[k])) if scount.sum() <= 4000 else _normal_tail(int(scount.sum()), int(bitc[k]))
        rec.check("signs.fair", tl > stats.ALPHA, ["sign bit", k], True, observed={"ones": int(bitc[k]), "n": int(scount.sum()), "tail": tl})
    # ---- random_pauli_map(2): uniform product of one-qubit Cliffords: 36 matrix classes x 16 signs
    pc = {}
    npm = max(4000, n2 // 8)
    badp = 0
    for t in range(npm):
        M = st.random_pauli_map(2)
        g, p = B.gsps(M)
        if not O.map_valid(g, p) or g[0:2, 2:4].any() or g[2:4, 0:2].any():
            badp += 1
            continue
        k = (g.tobytes(), p.tobytes())
        pc[k] = pc.get(k, 0) + 1
    counts = list(pc.values()) + [0] * (576 - len(pc))
    stat, dof, tail = stats.chi2_tail(counts) if npm >= 576 * 5 else (0, 0, 1.0)
    rec.batch("uniform.samples", npm, len(pc), [hash(k) & 0xFFFFFFFFFFFF for k in pc])
    rec.check("paulimap.n2", badp == 0 and len(pc) <= 576 and tail > stats.ALPHA and (npm < 576 * 12 or len(pc) == 576), ["paulimap", npm], True,
              expected="uniform over 24x24 products", observed={"distinct": len(pc), "chi2": stat, "tail": tail, "invalid": badp})
    # ---- random_pauli_map: the single-qubit factors are independent: 3x3 letter contingency tables of the X-images (and of the
    #      Z-images) for every pair of sites of random_pauli_map(4), each cell has probability 1/9
    nind = max(20000, n2 // 4)
    Np = 4
    cont = np.zeros((2, Np, Np, 4, 4), dtype=np.int64)
    for t in range(nind):
        M = st.random_pauli_map(Np)
        g, p = B.gsps(M)
        lx = np.array([O.letters(g[2 * a, 2 * a:2 * a + 2])[0] for a in range(Np)])
        lz = np.array([O.letters(g[2 * a + 1, 2 * a:2 * a + 2])[0] for a in range(Np)])
        for a in range(Np):
            for b in range(a + 1, Np):
                cont[0, a, b, lx[a], lx[b]] += 1
                cont[1, a, b, lz[a], lz[b]] += 1
    rec.batch("uniform.samples", nind, 0, None)
    for w in (0, 1):
        for a in range(Np):
            for b in range(a + 1, Np):
                cells = cont[w, a, b, 1:, 1:].reshape(-1)
                stat, dof, tail = stats.chi2_tail(list(cells))
                rec.check("paulimap.independent", cont[w, a, b, 0].sum() == 0 and cont[w, a, b, :, 0].sum() == 0 and tail > stats.ALPHA,
                          ["independence", "XZ"[w], a, b, nind], True, expected="uniform 3x3 letter table", observed={"table": cells.tolist(), "tail": tail})
    # ---- N=3: entangling fraction of random_clifford_state(3): qubit 0 entangled with the rest with probability exactly 2/3
    n3 = shard["n3"]
    ent = 0
    for t in range(n3):
        S = st.random_clifford_state(3)
        g, p, r = B.state(S)
        ent += O.entropy_gf2(g[0:3], 3, [0]) == 1
    tl = _normal_tail(n3, ent, 2.0 / 3.0)
    rec.batch("uniform.samples", n3, 0, None)
    rec.check("entangle.n3", tl > stats.ALPHA, ["entangle", n3], True, expected="fraction 2/3", observed={"entangled": int(ent), "n": n3, "tail": tl})
    # ---- N=3 and N=4: every row of a uniform Clifford map is marginally uniform over the 4^N-1 non-identity strings, and
    #      (X_k image, Z_k image) is uniform over anticommuting pairs: first-string marginal x parity of the second
    for N, ns in ((3, max(4000, n3)), (4, max(6000, n3))):
        cells = 4 ** N - 1
        rowc = np.zeros((2 * N, 4 ** N), dtype=np.int64)
        w = 4 ** np.arange(N)[::-1]
        badr = 0
        for t in range(ns):
            M = st.random_clifford_map(N)
            g, p = B.gsps(M)
            if t % 50 == 0 and not O.map_valid(g, p):
                badr += 1
            idx = (O.letters(g) * w).sum(-1)
            rowc[np.arange(2 * N), idx] += 1
        rec.batch("uniform.samples", ns, 0, None)
        worst = 1.0
        for k in range(2 * N):
            stat, dof, tail = stats.chi2_tail(list(rowc[k, 1:]))
            worst = min(worst, tail)
            rec.check("uniform.rows.n%d" % N, rowc[k, 0] == 0 and tail > stats.ALPHA, ["row marginal", N, k, ns], True,
                      expected="uniform over %d non-identity strings" % cells, observed={"identity": int(rowc[k, 0]), "chi2": stat, "tail": tail})
        rec.check("uniform.rows.valid", badr == 0, ["rows valid", N], True, observed=badr)
    # ---- gates without a map are resampled at every call
    for n in (1, 2):
        gate = C.CliffordGate(*range(n)) if B.name == "np" else C.CliffordGate(*range(n))
        seen = set()
        for t in range(200):
            P = B.PauliList(np.eye(2 * n, dtype=np.int64), np.zeros(2 * n, dtype=np.int64))
            gate.forward(P)
            g, p = B.gsps(P)
            seen.add((g.tobytes(), p.tobytes()))
        rec.check("resample", len(seen) > 1 and gate.forward_map is None and gate.backward_map is None, ["resample", n], True,
                  expected="more than one action in 200 calls, no map cached", observed=len(seen))
        seen = set()
        for t in range(200):
            P = B.PauliList(np.eye(2 * n, dtype=np.int64), np.zeros(2 * n, dtype=np.int64))
            gate.backward(P)
            g, p = B.gsps(P)
            seen.add((g.tobytes(), p.tobytes()))
        rec.check("resample", len(seen) > 1, ["resample.backward", n], True, observed=len(seen))
    # ---- random_bit_state: uniform over the 2^N bit strings
    if hasattr(st, "random_bit_state"):
        N = 3
        cnt = np.zeros(8, dtype=np.int64)
        nb = 4000
        for t in range(nb):
            S = st.random_bit_state(N)
            g, p, r = B.state(S)
            cnt[int((p[0] // 2) * 4 + (p[1] // 2) * 2 + (p[2] // 2))] += 1
        stat, dof, tail = stats.chi2_tail(list(cnt))
        rec.check("bitstate.uniform", tail > stats.ALPHA, ["bitstate", nb], True, observed={"counts": cnt.tolist(), "tail": tail})


def _normal_tail(n, k, p=0.5):
    from math import erfc, sqrt
    z = abs(k - n * p) / sqrt(n * p * (1 - p))
    return erfc(z / sqrt(2))


def run_coins(shard, rec, B):
    """measurement coins: aggregate fairness (exact binomial) and, for calls with MANY undetermined observables, fairness of
    every position of the call (a position that never changes over R repetitions has probability 2^(1-R))."""
    rng = gen.rng_for(rec)
    st, C = B.stabilizer, B.circuit
    R = shard["R"]
    ones = tot = 0
    for t in range(3000):
        S = st.zero_state(1)
        out, _ = S.measure(B.PauliList(np.array([[1, 0]]), np.array([0])))
        ones += int(out[0])
        tot += 1
    tl = stats.binom_two_sided(tot, ones) if tot <= 4000 else _normal_tail(tot, ones)
    rec.batch("coin.samples", tot, 0, None)
    rec.check("coin.fair", tl > stats.ALPHA, ["single coin", tot], True, observed={"ones": ones, "n": tot, "tail": tl})
    cases = []
    for N in ((66, 72, 130) if env.mode() == "jit" else (66,)):
        xs = np.zeros((N, 2 * N), dtype=np.int64)
        xs[np.arange(N), 2 * np.arange(N)] = 1
        cases.append(("all-X on |0..0>, N=%d" % N, N, xs, "state"))
    alt = np.array([[1, 0] if k % 2 == 0 else [0, 1] for k in range(80)])     # X,Z,X,Z,... on one qubit: every outcome is a fair coin
    cases.append(("alternating X/Z x80 on one qubit", 1, alt, "state"))
    if env.mode() == "jit":
        cases.append(("measurement layer on all 70 qubits of |+..+>", 70, None, "layer"))
    for name, N, obs, how in cases:
        outs = []
        for rep in range(R):
            if how == "state":
                S = st.zero_state(N)
                ok, res = rec.attempt("coin.positions", [name, rep], lambda: S.measure(B.PauliList(obs.copy(), np.zeros(len(obs), dtype=np.int64))))
                if not ok:
                    break
                outs.append(np.asarray(res[0]).astype(int))
            else:
                S = st.zero_state(N)
                for q in range(N):
                    C.H(q).forward(S)
                ML = C.MeasureLayer(*range(N), N=N)
                ok, _ = rec.attempt("coin.positions", [name, rep], lambda: ML.forward(S))
                if not ok:
                    break
                outs.append(((1 - np.asarray(ML.result).astype(int)) // 2))
        if len(outs) == R:
            outs = np.stack(outs)
            ones = outs.sum(0)
            const = [int(k) for k in np.nonzero((ones == 0) | (ones == R))[0]]
            rec.batch("coin.samples", outs.size, 0, None)
            rec.check("coin.positions", not const, [name, R], True, expected="both outcomes at every position within %d runs" % R,
                      observed={"constant_positions": const[:10], "n_constant": len(const), "positions": int(outs.shape[1])})
            if name.startswith("alternating"):
                # a fair coin does not remember: outcomes at lag 1, 2, 3 within one call are independent (their XOR is a fair coin)
                for lag in (1, 2, 3, 4):
                    x = (outs[:, lag:] ^ outs[:, :-lag]).reshape(-1)
                    tl = stats.binom_two_sided(int(x.size), int(x.sum()))
                    rec.check("coin.independent", tl > stats.ALPHA, [name, "lag", lag], True, expected="XOR of outcomes %d apart is fair" % lag,
                              observed={"ones": int(x.sum()), "n": int(x.size), "tail": tl})
