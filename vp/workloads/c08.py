"""C08 Entropy equals the von Neumann entropy of the reduced density matrix."""
import itertools

import numpy as np

from .. import oracle as O
from .. import gen
from ..monitor import snapshot, snap_diff

RULE = ("every valid tableau N=1, a stride over all 34560 valid N=2 tableaux, random signed tableaux of every rank N=3..6 "
        "(dense oracle) and N<=20 (GF(2) oracle), GHZ/cluster/highly entangled families; for each state all 2^N subsystems "
        "(N<=6) in index and boolean-mask form; regauged generating sets of the same group; Cliffords confined inside / "
        "outside the region; non-trivial = subsystem neither empty nor everything and state not a product of its cut")
ASSUMPTIONS = ["two oracles cross-checked on every dense-size case: eigenvalues of the partial trace, and |A| - dim G_A via own GF(2) rank"]
REQUIRED_SUBS = ["ent.dense", "ent.gf2", "ent.mask_vs_index", "ent.empty", "ent.full", "ent.complement", "ent.regauge",
                 "ent.local_inside", "ent.local_outside", "live.ent"]
REQUIRED_CALLS = ["StabilizerState.entropy"]


def shards(tier):
    q = tier == "quick"
    out = [
        {"name": "small.np.interp", "mode": "interp", "backend": "np", "fn": "small", "stride": 48 if q else 4},
        {"name": "small.np.jit", "mode": "jit", "backend": "np", "fn": "small", "stride": 12 if q else 1},
        {"name": "small.torch", "mode": "jit", "backend": "torch", "fn": "small", "stride": 192 if q else 16},
        {"name": "rand.np.jit", "mode": "jit", "backend": "np", "fn": "rand", "n": 250 if q else 12000, "big": 150 if q else 20000},
        {"name": "forms.np.jit", "mode": "jit", "backend": "np", "fn": "rand", "n": 80 if q else 4000, "big": 40 if q else 4000, "forms": 1},
        {"name": "rand.np.interp", "mode": "interp", "backend": "np", "fn": "rand", "n": 60 if q else 1500, "big": 10 if q else 300},
        {"name": "rand.torch", "mode": "jit", "backend": "torch", "fn": "rand", "n": 40 if q else 1500, "big": 10 if q else 500},
        {"name": "live.np.jit", "mode": "jit", "backend": "np", "fn": "live", "n": 40 if q else 2500},
        {"name": "live.torch", "mode": "jit", "backend": "torch", "fn": "live", "n": 10 if q else 400},
        {"name": "wide.np.jit", "mode": "jit", "backend": "np", "fn": "wide", "n": 1 if q else 20},
        {"name": "wide.np.interp", "mode": "interp", "backend": "np", "fn": "wide", "n": 1 if q else 2, "Ns": [40, 66]},
        {"name": "wide.torch", "mode": "jit", "backend": "torch", "fn": "wide", "n": 1 if q else 4, "Ns": [40, 66]},
        {"name": "huge.np.jit", "mode": "jit", "backend": "np", "fn": "huge", "Ns": [2100] if q else [2050, 2100, 4100], "no_hooks": 1},
        {"name": "huge.torch", "mode": "jit", "backend": "torch", "fn": "huge", "Ns": [2100] if q else [2050, 2100, 4100], "no_hooks": 1},
        {"name": "forms.torch", "mode": "jit", "backend": "torch", "fn": "rand", "n": 30 if q else 1000, "big": 8 if q else 300, "forms": 1},
    ]
    if not q:
        for k in range(4):
            out.append({"name": "rand.np.jit.%d" % k, "mode": "jit", "backend": "np", "fn": "rand", "n": 12000, "big": 20000})
    return out


def run(shard, rec, B):
    globals()["run_" + shard["fn"]](shard, rec, B)


def _show(g, p):
    return [O.show(a, b) for a, b in zip(g, p)]


def _val(B, x):
    try:
        return float(B.npf(x))
    except Exception:
        return float(x)


def _mask_arg(B, A, N):
    m = np.zeros(N, dtype=bool)
    m[list(A)] = True
    return m if B.name == "np" else B.torch.tensor(m)


def regauge(rng, gs, ps, r):
    """same stabilizer group, other generators: S_i <- S_i S_j, D_j <- D_j D_i (keeps the tableau valid)."""
    gs, ps = gs.copy(), ps.copy()
    N = gs.shape[1] // 2
    if N - r < 2:
        return gs, ps
    for _ in range(2 * (N - r)):
        i, j = rng.integers(r, N, 2)
        if i == j:
            continue
        gs[i], ps[i] = O.mul(gs[i], ps[i], gs[j], ps[j])
        gs[N + j], ps[N + j] = O.mul(gs[N + j], ps[N + j], gs[N + i], ps[N + i])
    perm = rng.permutation(np.arange(r, N))
    gs[r:N], ps[r:N] = gs[perm], ps[perm]
    gs[N + r:2 * N], ps[N + r:2 * N] = gs[perm + N], ps[perm + N]
    return gs, ps % 4


def check_state(rec, B, tg, tp, r, subsets, rng, dense=True, extras=True):
    N = tg.shape[1] // 2
    S = B.State(tg.copy(), tp.copy(), r)
    if N <= 300:
        sc = {"rows": _show(tg[r:N], tp[r:N]), "N": N, "r": r}
    else:   # thousands of rows: identify the state by a hash of its tableau
        import hashlib
        sc = {"tableau_blake2": hashlib.blake2b(tg.astype(np.uint8).tobytes() + tp.astype(np.uint8).tobytes(), digest_size=12).hexdigest(), "N": N, "r": r}
    before = snapshot(S)
    for A in subsets:
        A = list(A)
        case = {"state": sc, "A": A if len(A) <= 300 else {"n": len(A), "first": A[:5], "last": A[-5:], "sum": int(sum(A))}}
        e_g = O.entropy_gf2(tg[r:N], N, A)
        nt = 0 < len(A) < N and r < N
        if dense and N <= 6:
            e_d = O.entropy_dense(tg, tp, r, A)
            if abs(e_d - e_g) > 1e-6:
                rec.inconclusive("oracle layers disagree on entropy: %r dense=%r gf2=%r" % (case, e_d, e_g))
                continue
        ok, x = rec.attempt("ent.index", case, lambda: S.entropy(list(A)))
        if not ok:
            continue
        v = _val(B, x)
        tags = {"mixed": r > 0, "mech": "real_rank" if B.name == "torch" else ""}
        if dense and N <= 6:
            rec.check("ent.dense", abs(v - e_d) < 1e-6, case, nt, expected=e_d, observed=v, tags=tags)
        rec.check("ent.gf2", abs(v - e_g) < 1e-6, case, nt, expected=e_g, observed=v, tags=tags)
        if len(A) == 0:
            rec.check("ent.empty", v == 0, case, False, expected=0, observed=v)
            ok2, x2 = rec.attempt("ent.empty", case, lambda: S.entropy(()))
            if ok2:
                rec.check("ent.empty", _val(B, x2) == 0, case, False, expected=0, observed=_val(B, x2))
            continue
        if len(A) == N:
            rec.check("ent.full", abs(v - r) < 1e-6, case, r > 0, expected=r, observed=v, tags=tags)
        # other forms of the same subsystem: tuple, ndarray of indices, permuted indices, boolean mask
        forms = [("tuple", tuple(A)), ("ndarray", np.array(A)), ("perm", [A[i] for i in rng.permutation(len(A))]), ("mask", _mask_arg(B, A, N))]
        # a qubit named twice is still one qubit; indices may count from the end (numpy / torch index semantics, both packages)
        dup = A + [A[int(rng.integers(len(A)))] for _ in range(max(1, N - len(A)))]
        forms += [("repeated", dup), ("repeated.perm", [dup[i] for i in rng.permutation(len(dup))]),
                  ("negative", [a - N for a in A]), ("mixed.sign", [a - N if k % 2 else a for k, a in enumerate(A)]),
                  ("ndarray", np.array([a - N if k % 2 == 0 else a for k, a in enumerate(A)]))]
        if N > 300:
            forms = forms[1:4:2]
        elif B.name == "np":
            forms += [("np.int64 list", [np.int64(a) for a in A]), ("bool list", [bool(q in A) for q in range(N)]),
                      ("int32 array", np.array(A, dtype=np.int32))]
            # index arrays of the narrowest types that hold the indices (q + N does not fit in them on wide registers)
            forms += [("%s array" % np.dtype(dt).name, np.array(A, dtype=dt)) for dt in (np.int8, np.uint8, np.int16, np.uint16, np.uint32, np.uint64)
                      if max(A) <= np.iinfo(dt).max]
        for nm, arg in forms:
            before_arg = np.array(B.np(arg) if nm in ("mask", "ndarray") else arg).copy()
            if nm in ("negative", "mixed.sign") and B.name == "torch" and rng.integers(2):
                arg = B.torch.tensor(arg)
            ok, y = rec.attempt("ent.mask_vs_index", dict(case, form=nm), lambda: S.entropy(arg))
            if ok:
                rec.check("ent.mask_vs_index", abs(_val(B, y) - v) < 1e-6, dict(case, form=nm), nt, expected=v, observed=_val(B, y), tags=tags)
                after_arg = np.array(B.np(arg) if nm in ("mask", "ndarray") else arg)
                rec.check("ent.arg_unchanged", np.array_equal(before_arg, after_arg), dict(case, form=nm), nt, expected=before_arg, observed=after_arg)
        if r == 0:
            comp = [q for q in range(N) if q not in A]
            if comp:
                ok, y = rec.attempt("ent.complement", case, lambda: S.entropy(comp))
                if ok:
                    rec.check("ent.complement", abs(_val(B, y) - v) < 1e-6, case, nt, expected=v, observed=_val(B, y), tags=tags)
    rec.check("query.pure", not snap_diff(before, snapshot(S)), sc, True)
    if not extras:
        return
    # regauged generators of the same group give the same entropies
    A = gen.rand_subset(rng, N, int(rng.integers(1, N + 1)))
    e_g = O.entropy_gf2(tg[r:N], N, A)
    g2, p2 = regauge(rng, tg, tp, r)
    if O.tableau_problems(g2, p2, r) or O.state_key(g2, p2, r) != O.state_key(tg, tp, r):
        rec.inconclusive("regauge produced a different or invalid state")
    else:
        S2 = B.State(g2, p2, r)
        case = {"state": sc, "regauged": _show(g2[r:N], p2[r:N]), "A": A}
        ok, y = rec.attempt("ent.regauge", case, lambda: S2.entropy(list(A)))
        if ok:
            rec.check("ent.regauge", abs(_val(B, y) - e_g) < 1e-6, case, 0 < len(A) < N and N - r >= 2, expected=e_g, observed=_val(B, y),
                      tags={"mixed": r > 0, "mech": "real_rank" if B.name == "torch" else ""})
    # Clifford confined to A or to its complement leaves S(A) unchanged (tableau transformed by the oracle)
    for where in ("inside", "outside"):
        region = A if where == "inside" else [q for q in range(N) if q not in A]
        if not region:
            continue
        sub = gen.rand_subset(rng, len(region), int(rng.integers(1, min(len(region), 3) + 1)))
        qubits = sorted(region[i] for i in sub)
        mg, mp = O.random_map(rng, len(qubits))
        eg, ep = O.map_embed(mg, mp, qubits, N)
        g3, p3 = O.map_image_list(eg, ep, tg, tp)
        S3 = B.State(g3, p3, r)
        case = {"state": sc, "A": A, "gate_on": qubits, "where": where}
        ok, y = rec.attempt("ent.local_" + where, case, lambda: S3.entropy(list(A)))
        if ok:
            rec.check("ent.local_" + where, abs(_val(B, y) - e_g) < 1e-6, case, 0 < len(A) < N, expected=e_g, observed=_val(B, y),
                      tags={"mixed": r > 0, "mech": "real_rank" if B.name == "torch" else ""})


def run_small(shard, rec, B):
    rng = gen.rng_for(rec)
    for N in (1, 2):
        maps = list(O.all_maps(N))
        st = 1 if N == 1 else shard["stride"]
        n = 0
        for k in range(0, len(maps), st):
            mg, mp = maps[(k + 5 * rec.seed) % len(maps)]
            tg, tp, _ = O.tableau_from_map(mg, mp)
            for r in range(N + 1):
                check_state(rec, B, tg, tp, r, list(gen.subsets(N)), rng, extras=(k % (4 * st) == 0))
                n += 1
        rec.space("valid tableaux N=%d (stride %d) x all subsystems" % (N, st), n, exhaustive=(st == 1))


def families(N):
    """GHZ, linear cluster, Bell pairs (i, N-1-i): tableaux built by the oracle."""
    out = []
    # GHZ via rotations is awkward; write generators then complete to a tableau by search over destabilizers
    return out


def run_rand(shard, rec, B):
    rng = gen.rng_for(rec)
    Ns = [3, 3, 4, 4, 5, 6] if B.name == "np" else [3, 4]
    for t in range(shard["n"]):
        N = Ns[t % len(Ns)]
        # every rank; every third state highly entangled (many rotations)
        r = t % (N + 1)
        tg, tp, _ = O.random_tableau(rng, N, r=r, nrot=(6 * N if t % 3 == 0 else None))
        subs = list(gen.subsets(N)) if N <= 4 or t % 4 == 0 else [gen.rand_subset(rng, N) for _ in range(8)] + [[], list(range(N))]
        check_state(rec, B, tg, tp, r, subs, rng)
    # named families through the library's constructors (ghz) and large N through the GF(2) oracle only
    st = B.stabilizer
    for N in range(2, 8):
        ok, S = rec.attempt("ent.ghz", N, lambda: st.ghz_state(N))
        if ok:
            for A in gen.subsets(N):
                ok2, y = rec.attempt("ent.ghz", [N, A], lambda: S.entropy(list(A)) if A else S.entropy([]))
                if ok2:
                    want = 0 if len(A) in (0, N) else 1
                    rec.check("ent.ghz", abs(_val(B, y) - want) < 1e-6, [N, A], 0 < len(A) < N, expected=want, observed=_val(B, y))
    bigN = [7, 9, 12, 16, 20] if B.name == "np" else [7, 9]
    for t in range(shard["big"]):
        N = bigN[t % len(bigN)]
        r = int(rng.integers(0, N + 1)) if t % 2 else 0
        tg, tp, _ = O.random_tableau(rng, N, r=r, nrot=4 * N)
        subs = [gen.rand_subset(rng, N) for _ in range(4)] + [list(range(N // 2))]
        check_state(rec, B, tg, tp, r, subs, rng, dense=False, extras=(t % 3 == 0))


def run_live(shard, rec, B):
    """entropies re-asked of one live state object after every in-place operation of a history."""
    from .. import live
    rng = gen.rng_for(rec)
    for t in range(shard["n"]):
        N = int(rng.integers(2, 7))

        def query(S, G, hist, step):
            for _ in range(2):
                A = gen.rand_subset(rng, N, int(rng.integers(1, N + 1)))
                sg = np.stack([g for g, _ in G.gens]) if G.gens else np.zeros((0, 2 * N), dtype=np.int64)
                want = O.entropy_gf2(sg, N, A)
                case = {"N": N, "history": hist[-6:], "A": A}
                ok, x = rec.attempt("live.ent", case, lambda: S.entropy(list(A)))
                if ok:
                    rec.check("live.ent", abs(_val(B, x) - want) < 1e-6, case, 0 < len(A) < N, expected=want, observed=_val(B, x))
        live.walk(rec, B, rng, N, int(rng.integers(4, 16)), query)


def bell_tableau(N, order="blocked"):
    """N/2 Bell pairs (i, i+N/2): stabilizers XX and ZZ; destabilizers chosen to complete a valid tableau (ZI and IX)."""
    h = N // 2
    stab, dest = [], []
    for i in range(h):
        xx = np.zeros(2 * N, dtype=np.int64)
        xx[2 * i] = xx[2 * (i + h)] = 1
        zz = np.zeros(2 * N, dtype=np.int64)
        zz[2 * i + 1] = zz[2 * (i + h) + 1] = 1
        zi = np.zeros(2 * N, dtype=np.int64)
        zi[2 * i + 1] = 1
        ix = np.zeros(2 * N, dtype=np.int64)
        ix[2 * (i + h)] = 1
        stab.append((xx, zi))
        stab.append((zz, ix))
    if order == "blocked":
        stab = stab[0::2] + stab[1::2]
    gs = np.stack([a for a, _ in stab] + [b for _, b in stab])
    return gs, np.zeros(2 * N, dtype=np.int64)


def run_wide(shard, rec, B):
    """registers of 40..130 qubits (word / tile thresholds): structured states whose entropies are known analytically
    (Bell pairs across the cut, in two generator orders) and random states judged by the oracle's own GF(2) rank."""
    rng = gen.rng_for(rec)
    Ns = shard.get("Ns", [40, 64, 66, 72, 80, 100, 128, 130, 200, 256])
    for t in range(shard["n"]):
        for N in Ns:
            h = N // 2
            for order in ("blocked", "interleaved"):
                tg, tp = bell_tableau(N, order)
                if O.tableau_problems(tg, tp, 0):
                    rec.inconclusive("bell tableau invalid")
                    continue
                subs = [list(range(h)), list(range(8)), list(range(h - 3, h + 5)), gen.rand_subset(rng, N, h), list(range(N - 1))]
                check_state(rec, B, tg, tp, 0, subs, rng, dense=False, extras=False)
                for r in (1, 8, h):
                    check_state(rec, B, tg, tp, r, subs[:3], rng, dense=False, extras=False)
            tg, tp, _ = O.random_tableau(rng, N, r=0, nrot=N)
            subs = [list(range(h)), gen.rand_subset(rng, N, int(rng.integers(1, N))), gen.rand_subset(rng, N, N - 2)]
            check_state(rec, B, tg, tp, 0, subs, rng, dense=False, extras=(N <= 72))
            r = int(rng.integers(1, N))
            check_state(rec, B, tg, tp, r, subs, rng, dense=False, extras=(N <= 72))


def ghz_tableau(N):
    """X^N, Z_{i-1}Z_i with destabilizers Z_0 and X_i..X_{N-1}."""
    gs = np.zeros((2 * N, 2 * N), dtype=np.int64)
    gs[0, 0::2] = 1
    gs[N, 1] = 1
    for i in range(1, N):
        gs[i, 2 * (i - 1) + 1] = gs[i, 2 * i + 1] = 1
        gs[N + i, 2 * i::2] = 1
    return gs, np.zeros(2 * N, dtype=np.int64)


def _symplectic_ok(gs, N):
    """canonical commutation pattern of a tableau, by one exact float matmul (registers too wide for the pairwise table)."""
    g = gs.astype(np.float64)
    lam = (g[:, 0::2] @ g[:, 1::2].T + g[:, 1::2] @ g[:, 0::2].T) % 2
    want = np.zeros((2 * N, 2 * N))
    want[np.arange(N), np.arange(N) + N] = want[np.arange(N) + N, np.arange(N)] = 1
    return np.array_equal(lam, want)


def run_huge(shard, rec, B):
    """registers beyond 2048 qubits: overlap counts inside the entropy kernels exceed what half precision / 11-bit
    accumulators hold exactly. Structured states with analytically known entropies, generators made dense by row products
    (signs tracked by the table oracle, tableau validity by an exact matmul); the GF(2) oracle judges every region."""
    rng = gen.rng_for(rec)
    for N in shard["Ns"]:
        h = N // 2
        for fam in (("ghz.alldense",) if rec.tier == "quick" or N > 3000 else ("ghz", "ghz.alldense", "bell")):
            tg, tp = ghz_tableau(N) if fam.startswith("ghz") else bell_tableau(2 * h, "interleaved")
            M = tg.shape[1] // 2
            if fam.startswith("ghz"):  # the all-Z generator (product of Z_{2i}Z_{2i+1}) next to the all-X one: overlap N on every region
                for j in range(3, M, 2):
                    tg[1], tp[1] = O.mul(tg[1], tp[1], tg[j], tp[j])
                    tg[M + j], tp[M + j] = O.mul(tg[M + j], tp[M + j], tg[M + 1], tp[M + 1])
            if fam == "ghz.alldense":
                # every generator absorbs the all-Z one (and half of them the all-X one): all pairwise overlaps are about N, so
                # no sparse pair can stand in for a miscounted dense one
                for i in range(2, M):
                    for src in ((1, 0) if rng.integers(2) else (1,)):
                        tg[i], tp[i] = O.mul(tg[i], tp[i], tg[src], tp[src])
                        tg[M + src], tp[M + src] = O.mul(tg[M + src], tp[M + src], tg[M + i], tp[M + i])
            # more dense generators: a few target rows absorb about half of the others (D_j <- D_j D_t keeps the tableau valid)
            for tgt in (rng.choice(np.arange(2, M), size=4, replace=False) if fam != "ghz.alldense" else []):
                for j in np.nonzero(rng.integers(0, 2, M))[0]:
                    if j == tgt:
                        continue
                    tg[tgt], tp[tgt] = O.mul(tg[tgt], tp[tgt], tg[j], tp[j])
                    tg[M + j], tp[M + j] = O.mul(tg[M + j], tp[M + j], tg[M + tgt], tp[M + tgt])
            tp = tp % 4
            if not _symplectic_ok(tg, M) or np.any(tp % 2):
                rec.inconclusive("huge %s tableau invalid" % fam)
                continue
            rec.bump("huge_tableaux_built")
            rec.note("huge_max_row_weight_%s_%d" % (fam, M), int((O.letters(tg[:M]) != 0).sum(-1).max()))
            subs = [list(range(M - 1)), gen.rand_subset(rng, M, M // 2), list(range(1, M)), list(range(M // 2)), list(range(8)), [M - 1]]
            k = 2 if rec.tier == "quick" or N > 3000 else 6     # the port's GF(2) rank is a python loop: seconds per call at this size
            check_state(rec, B, tg, tp, 0, subs[:k], rng, dense=False, extras=False)
            check_state(rec, B, tg, tp, int(rng.integers(1, 9)), subs[:max(1, k // 3)], rng, dense=False, extras=False)
