"""C12 State-map duality and state constructors denote the documented states."""
import itertools

import numpy as np

from .. import oracle as O
from .. import gen

RULE = ("all valid maps with all sign patterns for N=1 (24) and N=2 (11520) x every rank r (quick: every 6th N=2 map), random "
        "oracle-built signed maps N=3..6; every named constructor for N=1..6; stabilizer_state from independent commuting "
        "signed lists of every length L<=N in every input format, all sign patterns for N<=3; anticommuting input must raise; "
        "non-trivial = at least one negative sign or a non-product map")
ASSUMPTIONS = ["stabilizer lists handed to stabilizer_state are independent, commuting, Hermitian (the documented domain)",
               "dense oracle: rho = 2^-r prod (1+S_a)/2; map unitary built constructively for N<=3"]
REQUIRED_SUBS = ["to_state", "to_state.dense", "roundtrip", "ctor.zero", "ctor.one", "ctor.ghz", "ctor.mixed", "to_qutip",
                 "sstate.value", "sstate.rank", "sstate.format.*", "sstate.raises", "density_matrix", "ctor.fresh"]


def shards(tier):
    q = tier == "quick"
    out = [
        {"name": "maps.np.interp", "mode": "interp", "backend": "np", "fn": "maps", "stride": 24 if q else 4},
        {"name": "maps.np.jit", "mode": "jit", "backend": "np", "fn": "maps", "stride": 6 if q else 1},
        {"name": "maps.torch", "mode": "jit", "backend": "torch", "fn": "maps", "stride": 48 if q else 6},
        {"name": "ctor.np.interp", "mode": "interp", "backend": "np", "fn": "ctor", "n": 60 if q else 1500},
        {"name": "ctor.np.jit", "mode": "jit", "backend": "np", "fn": "ctor", "n": 200 if q else 10000},
        {"name": "ctor.torch", "mode": "jit", "backend": "torch", "fn": "ctor", "n": 40 if q else 1500},
        {"name": "sstate.np.interp", "mode": "interp", "backend": "np", "fn": "sstate", "n": 150 if q else 3000},
        {"name": "sstate.np.jit", "mode": "jit", "backend": "np", "fn": "sstate", "n": 400 if q else 20000},
        {"name": "forms.sstate.np.jit", "mode": "jit", "backend": "np", "fn": "sstate", "n": 120 if q else 5000, "forms": 1},
        {"name": "forms.maps.np.jit", "mode": "jit", "backend": "np", "fn": "maps", "stride": 96 if q else 12, "forms": 1},
        {"name": "sstate.torch", "mode": "jit", "backend": "torch", "fn": "sstate", "n": 60 if q else 2000},
        {"name": "big.np.jit", "mode": "jit", "backend": "np", "fn": "big", "n": 1 if q else 15},
        {"name": "big.torch", "mode": "jit", "backend": "torch", "fn": "big", "n": 1 if q else 3},
        {"name": "forms.sstate.torch", "mode": "jit", "backend": "torch", "fn": "sstate", "n": 40 if q else 1200, "forms": 1},
        {"name": "forms.maps.torch", "mode": "jit", "backend": "torch", "fn": "maps", "stride": 192 if q else 24, "forms": 1},
    ]
    return out


def run(shard, rec, B):
    globals()["run_" + shard["fn"]](shard, rec, B)


def _show(g, p):
    return [O.show(a, b) for a, b in zip(g, p)]


def check_map(rec, B, mg, mp, r, rng, dense=True):
    N = len(mg) // 2
    M = B.Map(mg.copy(), mp.copy())
    case = {"map": _show(mg, mp), "r": r}
    nt = bool(np.any(mp)) or not np.array_equal(mg, np.eye(2 * N, dtype=np.int64))
    ok, S = rec.attempt("to_state", case, (lambda: M.to_state()) if r is None else (lambda: M.to_state(r)))
    if not ok:
        return
    rr = 0 if r is None else r
    if not isinstance(S, B.stabilizer.StabilizerState):
        rec.check("to_state", False, case, nt, expected="StabilizerState", observed=type(S).__name__)
        return
    lg, lp, lr = B.state(S)
    eg, ep, _ = O.tableau_from_map(mg, mp)
    rec.check("to_state", np.array_equal(lg, eg) and np.array_equal(lp, ep % 4) and lr == rr, case, nt,
              expected={"rows": _show(eg, ep), "r": rr}, observed={"rows": _show(lg, lp), "r": lr})
    rec.check("to_state.valid", not O.tableau_problems(lg, lp, lr), case, nt, observed=O.tableau_problems(lg, lp, lr))
    # same state as zero_state pushed through the map (library path), signs included
    ok, Z = rec.attempt("to_state.vs_transform", case, lambda: B.stabilizer.zero_state(N).transform_by(M))
    if ok:
        zg, zp, zr = B.state(Z)
        if rr == 0:
            rec.check("to_state.vs_transform", O.state_key(zg, zp, zr) == O.state_key(lg, lp, lr), case, nt,
                      expected=_show(zg[:N], zp[:N]), observed=_show(lg[:N], lp[:N]))
    if dense and N <= 3:
        V = O.unitary_from_map(mg, mp)
        D = 2 ** N
        # rank-2^r state: standby qubits maximally mixed before the map
        rho0 = np.array([[1]], dtype=complex)
        for k in range(N):
            rho0 = np.kron(rho0, O.I2 / 2 if k < rr else np.array([[1, 0], [0, 0]], dtype=complex))
        rec.check("to_state.dense", O.close(O.rho(lg, lp, lr), V @ rho0 @ V.conj().T), case, nt)
    ok, M2 = rec.attempt("roundtrip", case, lambda: S.to_map())
    if ok:
        g2, p2 = B.gsps(M2)
        rec.check("roundtrip", np.array_equal(g2, mg) and np.array_equal(p2, mp % 4) and isinstance(M2, B.stabilizer.CliffordMap),
                  case, nt, expected=_show(mg, mp), observed=_show(g2, p2))
    mg2, mp2 = B.gsps(M)
    rec.check("to_state.arg_unchanged", np.array_equal(mg2, mg) and np.array_equal(mp2, mp % 4), case, nt)
    if dense and N <= 3:
        ok, Q = rec.attempt("to_qutip", case, lambda: S.to_qutip().full())
        if ok:
            rec.check("to_qutip", O.close(np.asarray(Q), O.rho(eg, ep, rr), B.tol), case, nt)


def run_maps(shard, rec, B):
    rng = gen.rng_for(rec)
    for mg, mp in O.all_maps(1):
        for r in (None, 0, 1):
            check_map(rec, B, mg, mp, r, rng)
    rec.space("one-qubit maps x ranks", 24 * 3)
    maps = list(O.all_maps(2))
    st = shard["stride"]
    rec.space("two-qubit maps (stride %d) x ranks" % st, len(range(0, 11520, st)) * 3, exhaustive=(st == 1))
    for k in range(0, 11520, st):
        mg, mp = maps[(k + rec.seed) % 11520]
        for r in (None, 1, 2):
            check_map(rec, B, mg, mp, r, rng, dense=(k % (4 * st) == 0))
    for t in range(60):
        N = int(rng.integers(3, 7))
        mg, mp = O.random_map(rng, N)
        check_map(rec, B, mg, mp, [None, 0, int(rng.integers(0, N + 1))][t % 3], rng)


def _dense_of(B, S):
    g, p, r = B.state(S)
    return O.rho(g, p, r), (g, p, r)


def run_ctor(shard, rec, B):
    rng = gen.rng_for(rec)
    st = B.stabilizer
    for N in range(1, 7):
        D = 2 ** N
        e0 = np.zeros((D, D), dtype=complex)
        e0[0, 0] = 1
        e1 = np.zeros((D, D), dtype=complex)
        e1[-1, -1] = 1
        ghz = np.zeros((D, D), dtype=complex)
        for a in (0, D - 1):
            for b in (0, D - 1):
                ghz[a, b] = 0.5
        for name, fn, want in (("zero", st.zero_state, e0), ("one", st.one_state, e1), ("ghz", st.ghz_state, ghz),
                               ("mixed", st.maximally_mixed_state, np.eye(D) / D)):
            ok, S = rec.attempt("ctor." + name, N, lambda: fn(N))
            if not ok:
                continue
            if not isinstance(S, st.StabilizerState):
                rec.check("ctor." + name, False, N, True, expected="StabilizerState", observed=type(S).__name__,
                          tags={"mech": "not_a_state"})
                continue
            R, (g, p, r) = _dense_of(B, S)
            rec.check("ctor." + name, O.close(R, want) and not O.tableau_problems(g, p, r), N, N > 1 or name != "zero",
                      expected="documented density matrix", observed={"rows": _show(g, p), "r": r})
            if N <= 4:
                ok, Q = rec.attempt("to_qutip", [name, N], lambda: S.to_qutip().full())
                if ok:
                    rec.check("to_qutip", O.close(np.asarray(Q), want, B.tol), [name, N], True)
    # constructors hand out fresh objects: changing one result in place must not leak into the next call
    for N in range(1, 6):
        for name in ("identity_map", "zero_state", "one_state", "ghz_state", "maximally_mixed_state"):
            fn = getattr(st, name)
            ok, a = rec.attempt("ctor.fresh", [name, N], lambda: fn(N))
            if not ok:
                continue
            ref = B.gsps(a) + ((a.r,) if hasattr(a, "r") else ())
            ref = tuple(np.array(x).copy() if hasattr(x, "shape") else x for x in ref)
            try:
                a.rotate_by(B.Pauli(gen.rand_nonid(rng, N), 2))
                a.gs[0, 0] = 1 - a.gs[0, 0]
                a.ps[0] = (a.ps[0] + 2) % 4
                if name == "identity_map" and N >= 2:
                    m = np.zeros(N, dtype=bool)
                    m[0] = True
                    fn(N).embed(B.Map(*list(O.all_maps(1))[17]), m if B.name == "np" else B.torch.tensor(m))
            except Exception:
                pass
            ok, b = rec.attempt("ctor.fresh", [name, N], lambda: fn(N))
            if ok:
                got = B.gsps(b) + ((b.r,) if hasattr(b, "r") else ())
                same = all((np.array_equal(x, y) if hasattr(x, "shape") else x == y) for x, y in zip(got, ref))
                rec.check("ctor.fresh", same and b is not a, [name, N], True, expected="the documented object again", observed=_show(got[0], got[1])[:6])
    n = shard["n"]
    for t in range(n):
        N = int(rng.integers(1, 7))
        D = 2 ** N
        if hasattr(st, "random_bit_state"):
            ok, S = rec.attempt("ctor.random_bit", N, lambda: st.random_bit_state(N))
            if ok:
                R, (g, p, r) = _dense_of(B, S)
                d = np.real(np.diag(R))
                rec.check("ctor.random_bit", O.close(R, np.diag(d)) and sorted(np.round(d, 9))[-1] == 1 and abs(d.sum() - 1) < 1e-9
                          and not O.tableau_problems(g, p, r), [N, t], True, observed={"rows": _show(g, p), "r": r})
                rec.bump("random_bit_outcomes_seen_%d" % N, 0)
        r0 = [None, 0, int(rng.integers(0, N + 1))][t % 3]
        ok, S = rec.attempt("ctor.random_pauli", [N, r0], (lambda: st.random_pauli_state(N)) if r0 is None else (lambda: st.random_pauli_state(N, r0)))
        if ok:
            R, (g, p, r) = _dense_of(B, S)
            good = not O.tableau_problems(g, p, r) and r == (r0 or 0)
            # product state: every one-qubit marginal of the pure version is pure
            if good:
                Rp = O.rho(g, p, 0)
                for qb in range(N):
                    m = O.ptrace(Rp, N, [qb])
                    if abs(np.trace(m @ m).real - 1) > 1e-9:
                        good = False
            rec.check("ctor.random_pauli", good, [N, r0, t], True, observed={"rows": _show(g, p), "r": r})
        ok, S = rec.attempt("ctor.random_clifford", [N, r0], (lambda: st.random_clifford_state(N)) if r0 is None else (lambda: st.random_clifford_state(N, r0)))
        if ok:
            g, p, r = B.state(S)
            rec.check("ctor.random_clifford", not O.tableau_problems(g, p, r) and r == (r0 or 0), [N, r0, t], True,
                      observed={"rows": _show(g, p), "r": r, "problems": O.tableau_problems(g, p, r)})
        # the Pauli expansion exported by density_matrix (dense for N<=5, structural for groups up to 2^12)
        if t % 6 == 0:
            from ..dmcheck import check_dm
            k = [1, 3, 8, 9, 10, 12][(t // 6) % 6] if B.name == "np" else [1, 3, 8, 9][(t // 6) % 4]
            Nd = k + int(rng.integers(0, 3))
            dg_, dp_, _ = O.random_tableau(rng, Nd, r=Nd - k, nrot=2 * Nd)
            check_dm(rec, B, "density_matrix", dg_, dp_, Nd - k, rng, {"N": Nd, "r": Nd - k})
        # exports re-asked of ONE live state after public in-place changes (set_r, sign writes, rotations)
        if t % 5 == 0:
            Nl = int(rng.integers(1, 5))
            lg_, lp_, lr_ = O.random_tableau(rng, Nl)
            Sl = B.State(lg_.copy(), lp_.copy(), lr_)
            cur = (lg_.copy(), lp_.copy(), lr_)
            for step in range(4):
                ok, ex = rec.attempt("live.export", [Nl, step], lambda: (Sl.density_matrix, Sl.to_qutip().full(), Sl.to_map()))
                if not ok:
                    break
                dmm = O.dense_poly(B.np(ex[0].gs).reshape(-1, 2 * Nl), B.ph(ex[0].ps), B.cnp(ex[0].cs))
                want = O.rho(cur[0], cur[1], cur[2])
                mg_, mp_ = B.gsps(ex[2])
                rec.check("live.export", O.close(dmm, want, B.tol) and O.close(np.asarray(ex[1]), want, B.tol)
                          and np.array_equal(mg_[1::2], cur[0][:Nl]) and np.array_equal(mp_[1::2], cur[1][:Nl] % 4),
                          {"N": Nl, "step": step, "rows": _show(cur[0], cur[1]), "r": cur[2]}, True)
                how = int(rng.integers(3))
                if how == 0:
                    nr = int(rng.integers(0, Nl + 1))
                    Sl.set_r(nr)
                    cur = (cur[0], cur[1], nr)
                elif how == 1:
                    Gl, PGl = gen.rand_nonid(rng, Nl), 2 * int(rng.integers(2))
                    Sl.rotate_by(B.Pauli(Gl, PGl))
                    ng, npp = O.rot_image(Gl, PGl, cur[0], cur[1])
                    cur = (ng, npp, cur[2])
                else:
                    Sl.ps[:] = (Sl.ps + 2) % 4
                    cur = (cur[0], (cur[1] + 2) % 4, cur[2])
        # to_qutip of arbitrary signed mixed states
        if N <= 4:
            tg, tp, r = O.random_tableau(rng, N)
            S = B.State(tg.copy(), tp.copy(), r)
            ok, Q = rec.attempt("to_qutip", [N, t], lambda: S.to_qutip().full())
            if ok:
                rec.check("to_qutip", O.close(np.asarray(Q), O.rho(tg, tp, r), B.tol), {"rows": _show(tg, tp), "r": r}, True)


def _formats(B, gs, ps, rng):
    """the same signed list in every accepted input format: (name, args tuple)."""
    lib = B.paulialg
    strs = [('-' if p == 2 else '') + O.g2s(g) for g, p in zip(gs, ps)]
    codes = [[5 if p == 2 else 4] + [int(x) for x in O.letters(g)] for g, p in zip(gs, ps)]
    out = [("paulilist", (B.PauliList(gs.copy(), ps.copy()),))]
    out.append(("strings", tuple(strs)))
    out.append(("list_of_strings", (list(strs),)))
    out.append(("codes", tuple(codes)) if len(gs) > 1 else ("codes", (codes,)))
    out.append(("paulis", tuple(B.Pauli(g.copy(), int(p)) for g, p in zip(gs, ps))))
    mixed = []
    for k, (g, p) in enumerate(zip(gs, ps)):
        mixed.append([strs[k], np.array(codes[k]), B.Pauli(g.copy(), int(p))][k % 3])
    out.append(("mixed", (mixed,)))
    out.append(("generator", ((x for x in list(strs)),)))
    # the library's own printed form, line by line (' +XZ', ' -ZZ': blank-padded sign), and explicit '+' signs
    out.append(("repr_lines", (repr(B.PauliList(gs.copy(), ps.copy())).split("\n"),)))
    out.append(("plus_strings", tuple(('-' if p == 2 else '+') + O.g2s(g) for g, p in zip(gs, ps))))
    return out


def run_sstate(shard, rec, B):
    rng = gen.rng_for(rec)
    st = B.stabilizer
    cases = []
    # all sign patterns, every L, for a few base tableaux N<=3
    for N in (1, 2, 3):
        for rep in range(2):
            for L in range(1, N + 1):
                gs, _ = gen.independent_commuting(rng, N, L)
                for signs in itertools.product((0, 2), repeat=L):
                    cases.append((N, gs, np.array(signs, dtype=np.int64)))
    rec.space("sign patterns x lengths for sampled commuting sets N<=3", len(cases))
    for t in range(shard["n"]):
        N = int(rng.integers(1, 5 if B.name == "np" else 4))
        L = int(rng.integers(1, N + 1))
        gs, ps = gen.independent_commuting(rng, N, L)
        cases.append((N, gs, ps))
    for idx, (N, gs, ps) in enumerate(cases):
        L = len(gs)
        D = 2 ** N
        Pi = np.eye(D, dtype=complex)
        for g, p in zip(gs, ps):
            Pi = Pi @ (np.eye(D) + O.dense(g, p)) / 2
        want = Pi / np.trace(Pi).real
        case = {"N": N, "stabilizers": _show(gs, ps)}
        nt = bool(np.any(ps))
        fmts = _formats(B, gs, ps, rng)
        if idx % 3 and idx >= 40:
            fmts = fmts[:1] + [fmts[1 + idx % (len(fmts) - 1)]]
        for name, args in fmts:
            ok, S = rec.attempt("sstate.format." + name, case, lambda: st.stabilizer_state(*args))
            if not ok:
                continue
            g, p, r = B.state(S)
            good = O.close(O.rho(g, p, r), want)
            rec.check("sstate.format." + name, good, case, nt, expected="normalised projector", observed={"rows": _show(g, p), "r": r})
            if name == "paulilist":
                rec.check("sstate.value", good, case, nt, expected="normalised projector", observed={"rows": _show(g, p), "r": r})
                rec.check("sstate.rank", r == N - L and not O.tableau_problems(g, p, r), case, nt, expected=N - L,
                          observed={"r": r, "problems": O.tableau_problems(g, p, r)})
                ag, ap = B.gsps(args[0])
                rec.check("sstate.arg_unchanged", np.array_equal(ag, gs) and np.array_equal(ap, ps % 4), case, nt)
        # an anticommuting pair must be refused
        if N >= 1 and idx % 2 == 0:
            bad_g = gs.copy()
            extra = None
            for trial in range(50):
                c = gen.rand_nonid(rng, N)
                if O.anti(c, gs[0]):
                    extra = c
                    break
            if extra is not None:
                bg = np.concatenate([gs, extra[None, :]])
                bp = np.concatenate([ps, [0]])
                perm = rng.permutation(len(bg))
                try:
                    st.stabilizer_state(B.PauliList(bg[perm], bp[perm]))
                    got = "accepted"
                except ValueError:
                    got = "ValueError"
                    rec.refusal("ValueError:anticommuting stabilizers")
                except Exception as e:
                    got = type(e).__name__
                # element-type shards: the kind of refusal is not judged, only that the inconsistent list is not accepted
                rec.check("sstate.raises", got == "ValueError" or (getattr(rec, "lenient", False) and got != "accepted"), {"N": N, "list": _show(bg[perm], bp[perm])}, True,
                          expected="ValueError", observed=got)


def run_big(shard, rec, B):
    """wide registers: map <-> state conversion row by row, constructors, stabilizer_state from long commuting lists
    (judged as canonical signed groups; no dense matrices at these sizes)."""
    rng = gen.rng_for(rec)
    st = B.stabilizer
    Ns = [31, 32, 33, 63, 64, 65, 70, 128, 130] if B.name == "np" else [33, 65]
    for t in range(shard["n"]):
        for N in Ns:
            mg, mp = O.random_map(rng, N, nrot=N + 3)
            for r in (None, 1, N // 2, N):
                check_map(rec, B, mg, mp, r, rng, dense=False)
            zg = np.zeros((N, 2 * N), dtype=np.int64)
            zg[np.arange(N), 2 * np.arange(N) + 1] = 1
            for name, signs in (("zero_state", 0), ("one_state", 2)):
                ok, S = rec.attempt("ctor." + name, N, lambda: getattr(st, name)(N))
                if ok:
                    g, p, r = B.state(S)
                    rec.check("ctor.%s.big" % name, r == 0 and not O.tableau_problems(g, p, r) and O.state_key(g, p, r) == (0,) + O.canon_group(zg, np.full(N, signs)),
                              [name, N], True)
            ok, S = rec.attempt("ctor.ghz", N, lambda: st.ghz_state(N))
            if ok:
                g, p, r = B.state(S)
                gg = np.zeros((N, 2 * N), dtype=np.int64)
                for i in range(N - 1):
                    gg[i, 2 * i + 1] = gg[i, 2 * i + 3] = 1
                gg[N - 1, 0::2] = 1
                rec.check("ctor.ghz.big", r == 0 and not O.tableau_problems(g, p, r) and O.state_key(g, p, r) == (0,) + O.canon_group(gg, np.zeros(N, dtype=np.int64)), ["ghz", N], True)
            ok, S = rec.attempt("ctor.mixed", N, lambda: st.maximally_mixed_state(N))
            if ok:
                g, p, r = B.state(S)
                rec.check("ctor.mixed.big", r == N and not O.tableau_problems(g, p, r), ["mixed", N], True)
            # stabilizer_state from L independent commuting signed stabilizers
            L = [1, N // 2, N - 1, N][int(rng.integers(4))]
            tg, tp, _ = O.random_tableau(rng, N, r=0, nrot=N)
            order = rng.permutation(N)[:L]
            gs, ps = tg[order], tp[order]
            ok, S = rec.attempt("sstate.value", [N, L], lambda: st.stabilizer_state(B.PauliList(gs.copy(), ps.copy())))
            if ok:
                g, p, r = B.state(S)
                want = (N - L,) + O.canon_group(gs, ps)
                rec.check("sstate.value", not O.tableau_problems(g, p, r) and O.state_key(g, p, r) == want, {"N": N, "L": L}, True,
                          expected={"r": N - L}, observed={"r": r, "problems": O.tableau_problems(g, p, r)})
