"""C19 Stabilizer-group sampling and classical-shadow snapshots agree with the state."""
import itertools

import numpy as np

from .. import oracle as O
from .. import gen
from .. import stats
from .. import programs as PR
from ..monitor import snapshot, snap_diff

RULE = ("all valid N=1 tableaux and a stride over the 34560 N=2 tableaux (all ranks), random signed tableaux of all ranks N=3..6: "
        "every sampled operator checked for membership with the right sign, sample histograms chi-square tested (alpha 1e-9) on "
        "groups of size <=64, density_matrix expansion compared term by term and as a dense matrix; classical shadows with "
        "on-site, global, brick-wall random circuits and fixed circuits on pure and mixed bases: each snapshot and the "
        "back-evolved basis that produced it are recorded by a hook on circuit.povm; non-trivial = group has >1 element / "
        "snapshot differs from the base state")
ASSUMPTIONS = ["shadow circuits act on the same number of qubits as the base state", "overlap Tr(snapshot * base) judged on dense matrices (N<=5)",
               "uniformity: Pearson chi-square, alpha=1e-9 per test, expected count >= 20 per cell"]
REQUIRED_SUBS = ["sample.sign", "sample.member", "sample.uniform", "dm.value", "dm.count", "snap.valid", "snap.overlap", "snap.basis",
                 "snap.base_untouched"]
REQUIRED_CALLS = ["StabilizerState.sample", "ClassicalShadow.snapshots", "povm.yield"]


def shards(tier):
    q = tier == "quick"
    out = [
        {"name": "small.np.interp", "mode": "interp", "backend": "np", "fn": "small", "stride": 192 if q else 12},
        {"name": "small.np.jit", "mode": "jit", "backend": "np", "fn": "small", "stride": 48 if q else 2},
        {"name": "rand.np.jit", "mode": "jit", "backend": "np", "fn": "rand", "n": 200 if q else 10000},
        {"name": "rand.np.interp", "mode": "interp", "backend": "np", "fn": "rand", "n": 40 if q else 1000},
        {"name": "shadow.np.jit", "mode": "jit", "backend": "np", "fn": "shadow", "n": 120 if q else 6000},
        {"name": "shadow.np.interp", "mode": "interp", "backend": "np", "fn": "shadow", "n": 30 if q else 800},
        {"name": "live.np.jit", "mode": "jit", "backend": "np", "fn": "live", "n": 40 if q else 2500},
        {"name": "big.np.jit", "mode": "jit", "backend": "np", "fn": "big", "n": 1 if q else 12},
    ]
    if not q:
        for k in range(4):
            out.append({"name": "shadow.np.jit.%d" % k, "mode": "jit", "backend": "np", "fn": "shadow", "n": 6000})
    return out


def run(shard, rec, B):
    from ..monitor import Hooks
    hk = Hooks(rec)
    hk.wrap(B.lib.device.ClassicalShadow if hasattr(B.lib, "device") else B.lib.ClassicalShadow, "snapshots")
    globals()["run_" + shard["fn"]](shard, rec, B)


def _show(g, p):
    return [O.show(a, b) for a, b in zip(g, p)]


def check_state(rec, B, tg, tp, r, rng, nsamp=40, uniform=False):
    N = tg.shape[1] // 2
    S = B.State(tg.copy(), tp.copy(), r)
    sc = {"rows": _show(tg[r:N], tp[r:N]), "N": N, "r": r}
    before = snapshot(S)
    cg, okc = O.canon_group(tg[r:N], tp[r:N])
    k = N - r
    nt = k >= 1
    # ---- samples
    ok, L = rec.attempt("sample", sc, lambda: S.sample(nsamp))
    if ok:
        sg, sp = B.gsps(L)
        rec.check("sample.shape", sg.shape == (nsamp, 2 * N) and isinstance(L, B.paulialg.PauliList), sc, nt, observed=sg.shape)
        good_m, good_s, bad = True, True, None
        for g, p in zip(sg, sp):
            ph = O.group_contains(cg, g)
            if ph is None:
                good_m, bad = False, O.show(g, p)
                break
            if ph != p:
                good_s, bad = False, O.show(g, p)
                break
        rec.check("sample.member", good_m, sc, nt, expected="elements of the stabilizer group", observed=bad)
        rec.check("sample.sign", good_m and good_s, sc, nt and bool(tp[r:N].any()), expected="sign with expectation +1", observed=bad)
        ok2, xs = rec.attempt("sample.expect", sc, lambda: S.expect(L))
        if ok2:
            rec.check("sample.expect", bool(np.all(np.asarray(xs) == 1)), sc, nt, expected="all +1", observed=np.asarray(xs)[:12])
    for n0 in (0, 1):
        ok, L0 = rec.attempt("sample.size", [sc, n0], lambda: S.sample(n0))
        if ok:
            sg0, sp0 = B.gsps(L0)
            rec.check("sample.size", sg0.shape == (n0, 2 * N) and all(O.group_contains(cg, g) == p for g, p in zip(sg0, sp0)), [sc, n0], False)
    # ---- uniformity over the 2^k group elements
    if uniform and 1 <= k <= 6:
        M = 2 ** k
        n = 60 * M
        ok, L = rec.attempt("sample.uniform", sc, lambda: S.sample(n))
        if ok:
            sg, _ = B.gsps(L)
            keys = {}
            for g in sg:
                t = g.tobytes()
                keys[t] = keys.get(t, 0) + 1
            counts = list(keys.values()) + [0] * (M - len(keys))
            stat, dof, tail = stats.chi2_tail(counts)
            rec.check("sample.uniform", len(keys) <= M and tail > stats.ALPHA, sc, True, expected="chi-square tail > 1e-9 over %d elements" % M,
                      observed={"distinct": len(keys), "chi2": stat, "tail": tail, "n": n})
    # ---- uniformity at every row position of many SHORT calls (the last rows of a call are as random as the first)
    if uniform and 1 <= k <= 4:
        M = 2 ** k
        Ls = 5
        reps = 40 * M
        pos = [dict() for _ in range(Ls)]
        ok_all = True
        for _ in range(reps):
            ok, L = rec.attempt("sample.uniform.rows", sc, lambda: S.sample(Ls))
            if not ok:
                ok_all = False
                break
            sg, _ = B.gsps(L)
            for j in range(Ls):
                t = sg[j].tobytes()
                pos[j][t] = pos[j].get(t, 0) + 1
        if ok_all:
            tails = []
            for j in range(Ls):
                counts = list(pos[j].values()) + [0] * (M - len(pos[j]))
                tails.append(stats.chi2_tail(counts)[2])
            rec.check("sample.uniform.rows", min(tails) > stats.ALPHA, sc, True, expected="chi-square tail > 1e-9 at each of %d row positions" % Ls,
                      observed={"tails": tails, "calls": reps})
    # ---- density-matrix expansion
    if k <= 7:
        ok, DM = rec.attempt("dm", sc, lambda: S.density_matrix)
        if ok:
            dg, dp, dc = B.np(DM.gs).reshape(-1, 2 * N), B.ph(DM.ps), B.cnp(DM.cs)
            keys = set(g.tobytes() for g in dg)
            good = len(dg) == 2 ** k and len(keys) == len(dg)
            if good:
                for g, p, c in zip(dg, dp, dc):
                    ph = O.group_contains(cg, g)
                    if ph is None or abs(c * 1j ** int(p) - (1j ** ph) * 2.0 ** (-N)) > 1e-12:
                        good = False
                        break
            rec.check("dm.count", len(dg) == 2 ** k and len(keys) == len(dg), sc, nt, expected=2 ** k, observed=[len(dg), len(keys)])
            rec.check("dm.terms", good, sc, nt, expected="every group element once with weight 2^-N and its sign")
            if N <= 5:
                rec.check("dm.value", O.close(O.dense_poly(dg, dp, dc), O.rho(tg, tp, r)), sc, nt)
    rec.check("query.pure", not snap_diff(before, snapshot(S)), sc, nt)


def run_small(shard, rec, B):
    rng = gen.rng_for(rec)
    for N in (1, 2):
        maps = list(O.all_maps(N))
        st = 1 if N == 1 else shard["stride"]
        n = 0
        for i, k in enumerate(range(0, len(maps), st)):
            tg, tp, _ = O.tableau_from_map(*maps[(k + rec.seed) % len(maps)])
            for r in range(N + 1):
                check_state(rec, B, tg, tp, r, rng, nsamp=24, uniform=(i % 8 == 0))
                n += 1
        rec.space("valid tableaux N=%d (stride %d) x ranks" % (N, st), n, exhaustive=(st == 1))


def run_rand(shard, rec, B):
    rng = gen.rng_for(rec)
    for t in range(shard["n"]):
        N = [3, 4, 5, 6][t % 4]
        r = t % (N + 1)
        tg, tp, _ = O.random_tableau(rng, N, r=r)
        check_state(rec, B, tg, tp, r, rng, nsamp=30, uniform=(t % 10 == 0))


# ---------------------------------------------------------------- classical shadows
def fixed_circuit(B, N, rng, cls):
    prog = PR.rand_program(rng, N, int(rng.integers(1, 8)))
    circ = B.circuit.identity_circuit(N) if cls == "CliffordCircuit" else B.circuit.Circuit(N)
    gates = []
    for s in prog:
        g = PR.make_gate(B, s, N)
        gates.append(g)
        circ.take(g)
    compiled = bool(rng.integers(2))
    if compiled:
        circ.compile()
    circ._vp_compiled_by_harness = compiled
    circ._vp_gates = gates
    return circ, prog


def run_shadow(shard, rec, B):
    rng = gen.rng_for(rec)
    C = B.circuit
    CS = B.lib.ClassicalShadow
    for t in range(shard["n"]):
        kind = ["onsite", "global", "brickwall", "fixed", "fixedC"][t % 5]
        N = int(rng.integers(1, 6))
        if kind == "brickwall":
            N = 2 * int(rng.integers(1, 4))
        if kind == "onsite":
            circ = C.onsite_rcc(N)
        elif kind == "global":
            circ = C.global_rcc(N)
        elif kind == "brickwall":
            circ = C.brickwall_rcc(N, int(rng.integers(1, 5)))
        elif kind == "fixed":
            circ, prog = fixed_circuit(B, N, rng, "CliffordCircuit")
        else:
            circ, prog = fixed_circuit(B, N, rng, "Circuit")
        r = [0, 0, int(rng.integers(0, N + 1))][t % 3]
        tg, tp, _ = O.random_tableau(rng, N, r=r)
        base = B.State(tg.copy(), tp.copy(), r)
        before = snapshot(base)
        desc = {"circuit": kind, "N": N, "base": {"rows": _show(tg[r:N], tp[r:N]), "r": r}}
        if kind.startswith("fixed") and rng.integers(2):
            circ.forward(B.PauliList(gen.rand_list(rng, 2, N), np.zeros(2, dtype=np.int64)))    # harmless use before the shadow
        # hook: record every basis state the circuit yields, in order
        yielded = []
        orig_povm = circ.povm

        def recording_povm(nsample, _orig=orig_povm):
            for st in _orig(nsample):
                g, p, rr = B.state(st)
                yielded.append((g.copy(), p.copy(), rr))
                rec.event("povm.yield")
                yield st
        circ.povm = recording_povm
        ns = 5
        ok, snaps = rec.attempt("snap", desc, lambda: list(CS(base, circ).snapshots(ns)))
        circ.povm = orig_povm
        if not ok:
            continue
        rec.check("snap.count", len(snaps) == ns and len(yielded) == ns, desc, True, observed=[len(snaps), len(yielded)])
        Rb = O.rho(tg, tp, r) if N <= 5 else None
        for i, (sn, (pg, pp, pr)) in enumerate(zip(snaps, yielded)):
            g, p, rr = B.state(sn)
            case = dict(desc, i=i, basis=_show(pg[:N], pp[:N]), snapshot={"rows": _show(g[rr:N], p[rr:N]), "r": rr})
            probs = O.tableau_problems(g, p, rr)
            rec.check("snap.valid", not probs and not O.tableau_problems(pg, pp, pr) and sn is not base, case, True, observed=probs)
            if probs:
                continue
            # stabilized up to sign by the back-evolved basis: every basis stabilizer has expectation +-1 in the snapshot
            cg, _ = O.canon_group(g[rr:N], p[rr:N])
            good = rr == 0 and pr == 0 and all(O.group_contains(cg, pg[a]) is not None for a in range(N))
            rec.check("snap.basis", good, case, True, expected="pure state stabilized by +- every basis element")
            if Rb is not None:
                ov = np.trace(O.rho(g, p, rr) @ Rb).real
                rec.check("snap.overlap", ov > 1e-9, case, True, expected="> 0", observed=float(ov))
            if kind.startswith("fixed"):
                # the basis of a deterministic circuit is known to the oracle: inverse program applied to |0..0>
                G = O.GroupState(N, [(zrow(a, N), 0) for a in range(N)])
                for s in reversed(prog):
                    mg, mp = PR.spec_map_any(B, s, N)
                    G.apply_map(*O.map_inverse(mg, mp))
                rec.check("snap.povm_fixed", O.state_key(pg, pp, pr) == G.key(), case, True)
        rec.check("snap.base_untouched", not snap_diff(before, snapshot(base)), desc, True, observed=snap_diff(before, snapshot(base)))
        # the same (fixed) measurement circuit is extended and used again: the basis must follow the circuit as it is NOW
        if kind.startswith("fixed"):
            more = PR.rand_program(rng, N, int(rng.integers(1, 4)))
            for sp_ in more:
                circ.take(PR.make_gate(B, sp_, N))
            prog = list(prog)
            # a generator gate that is already part of the circuit is re-targeted through its public setter
            cand = [i_ for i_, sp_ in enumerate(prog) if sp_["kind"] == "setgen"]
            if cand and rng.integers(2):
                i_ = cand[int(rng.integers(len(cand)))]
                nG, nP = gen.rand_nonid(rng, len(prog[i_]["qubits"])), 2 * int(rng.integers(2))
                circ._vp_gates[i_].set_generator(B.Pauli(nG, nP))
                prog[i_] = dict(prog[i_], G=nG, PG=nP)
            if getattr(circ, "_vp_compiled_by_harness", False):
                circ.compile()          # documented: recompile after changing a circuit that the USER compiled
            prog2 = prog + more
            yielded2 = []
            orig2 = circ.povm

            def rec_povm2(nsample, _orig=orig2):
                for st_ in _orig(nsample):
                    g_, p_, r_ = B.state(st_)
                    yielded2.append((g_.copy(), p_.copy(), r_))
                    yield st_
            circ.povm = rec_povm2
            ok, snaps2 = rec.attempt("snap.grown", desc, lambda: list(CS(base, circ).snapshots(3)))
            circ.povm = orig2
            if ok:
                G2 = O.GroupState(N, [(zrow(a, N), 0) for a in range(N)])
                for sp_ in reversed(prog2):
                    mg_, mp_ = PR.spec_map_any(B, sp_, N)
                    G2.apply_map(*O.map_inverse(mg_, mp_))
                for i, (sn, (pg, pp, pr)) in enumerate(zip(snaps2, yielded2)):
                    g, p, rr = B.state(sn)
                    cgs, _ = O.canon_group(g[rr:N], p[rr:N])
                    good = not O.tableau_problems(g, p, rr) and O.state_key(pg, pp, pr) == G2.key() and rr == 0 \
                        and all(O.group_contains(cgs, np.array(x)) is not None for x, _ in G2.key()[1])
                    rec.check("snap.grown", good, dict(desc, i=i, added=[PR.describe(x)["kind"] for x in more]), True,
                              expected="snapshots in the basis of the extended circuit")
        # random circuits resample: over the 5 snapshots more than one basis must occur (probability of a false alarm < 1e-9 for N>=2 global)
        if kind == "global" and N >= 4:
            keys = set(O.state_key(a, b, c)[1] for a, b, c in yielded)
            rec.check("snap.resampled", len(keys) > 1, desc, True, observed=len(keys))


def zrow(a, N):
    g = np.zeros(2 * N, dtype=np.int64)
    g[2 * a + 1] = 1
    return g


def run_live(shard, rec, B):
    """samples / density-matrix expansions re-asked of one live state object after every in-place operation of a history."""
    from .. import live
    rng = gen.rng_for(rec)
    for t in range(shard["n"]):
        N = int(rng.integers(1, 5))

        def query(S, G, hist, step):
            cg, _ = O.canon_group([g for g, _ in G.gens], [p for _, p in G.gens])
            case = {"N": N, "history": hist[-6:]}
            ok, L = rec.attempt("live.sample", case, lambda: S.sample(6))
            if ok:
                sg, sp = B.gsps(L)
                good = all(O.group_contains(cg, g) == p for g, p in zip(sg, sp))
                rec.check("live.sample", good, case, len(G.gens) > 0, observed=_show(sg, sp))
            ok, DM = rec.attempt("live.dm", case, lambda: S.density_matrix)
            if ok:
                dg, dp, dc = B.np(DM.gs).reshape(-1, 2 * N), B.ph(DM.ps), B.cnp(DM.cs)
                rec.check("live.dm", len(dg) == 2 ** len(G.gens) and O.close(O.dense_poly(dg, dp, dc), G.rho()), case, True)
        live.walk(rec, B, rng, N, int(rng.integers(4, 14)), query)


def run_big(shard, rec, B):
    """wide registers: sample membership / sign by the canonical-group oracle, long sample lists, density-matrix expansion of
    large-N states of small group size, snapshots of wide states with on-site and fixed circuits."""
    rng = gen.rng_for(rec)
    C, CS = B.circuit, B.lib.ClassicalShadow
    for t in range(shard["n"]):
        for N in (33, 64, 65, 70, 130):
            for r in (0, N - 5, N // 2):
                tg, tp, _ = O.random_tableau(rng, N, r=r, nrot=N // 2)
                check_state(rec, B, tg, tp, r, rng, nsamp=[5, 300][int(rng.integers(2))], uniform=False)
        # density-matrix expansions of groups with 2^8 .. 2^17 elements: count, distinctness, closure under the generators'
        # row space, weights, and signs of a sample of terms (term-by-term dense comparison is impossible here)
        for k in ([8, 9, 10, 12] if shard["n"] <= 1 else [8, 9, 10, 12, 15, 16, 17]):
            N = k + int(rng.integers(0, 3))
            r = N - k
            tg, tp, _ = O.random_tableau(rng, N, r=r, nrot=2 * N)
            S = B.State(tg.copy(), tp.copy(), r)
            sc = {"N": N, "r": r, "group_log2": k}
            ok, DM = rec.attempt("dm.big", sc, lambda: S.density_matrix)
            if ok:
                dg, dp, dc = B.np(DM.gs).reshape(-1, 2 * N), B.ph(DM.ps), B.cnp(DM.cs)
                uniq = np.unique(dg, axis=0)
                cg, _ = O.canon_group(tg[r:N], tp[r:N])
                inside = O.gf2rank(np.concatenate([tg[r:N], uniq[rng.integers(0, len(uniq), 60)]])) == k
                wts = np.allclose(np.abs(dc), 2.0 ** (-N))
                signs = True
                for j in rng.integers(0, len(dg), 80):
                    ph = O.group_contains(cg, dg[j])
                    if ph is None or abs(dc[j] * 1j ** int(dp[j]) - (1j ** ph) * 2.0 ** (-N)) > 1e-12:
                        signs = False
                        break
                rec.check("dm.big", len(dg) == 2 ** k and len(uniq) == 2 ** k and inside and wts and signs, sc, True,
                          expected="%d distinct group elements, weight 2^-N, right signs" % 2 ** k,
                          observed={"terms": len(dg), "distinct": len(uniq), "in_group": bool(inside), "weights": bool(wts), "signs": bool(signs)})
        for N in (33, 64, 65, 70, 130):
            if N <= 70:
                tg, tp, _ = O.random_tableau(rng, N, r=int(rng.integers(0, 3)), nrot=8)
                base = B.State(tg.copy(), tp.copy(), 0)
                before = snapshot(base)
                prog, hot = PR.wide_program(rng, N, 5)
                circ = C.identity_circuit(N)
                for sp_ in prog:
                    circ.take(PR.make_gate(B, sp_, N))
                for kind, cc in (("fixed", circ), ("onsite", C.onsite_rcc(N))):
                    ok, snaps = rec.attempt("snap", [kind, N], lambda: list(CS(base, cc).snapshots(2)))
                    if ok:
                        for sn in snaps:
                            g, p, rr = B.state(sn)
                            rec.check("snap.valid", not O.tableau_problems(g, p, rr) and rr == 0, ["big", kind, N], True, observed=O.tableau_problems(g, p, rr))
                rec.check("snap.base_untouched", not snap_diff(before, snapshot(base)), ["big", N], True)
