"""C15 Pauli polynomial arithmetic is a faithful operator algebra."""
import numpy as np

from .. import oracle as O
from .. import gen

RULE = ("all single-term operand pairs for N=1 (every string x 4 phases, every ordered type pair, every operator); generated "
        "expression trees of depth <=4 over random leaves (Pauli, monomial, polynomial, list, number) with all four phases, "
        "complex coefficients, repeated and exactly cancelling strings, N<=4; every node's object is converted to a dense "
        "matrix by the oracle from its (gs,ps,cs) and compared with the matrix expression of its operands; reduce / trace / "
        "to_qutip / linearity of rotations and maps; non-trivial = result has a non-zero term and some operand has phase != 0 "
        "or a non-real coefficient")
ASSUMPTIONS = ["type lattice: left operands of + - @ are Pauli / monomial / polynomial; numbers and lists appear on the right of + -; "
               "scalars multiply from the left (c * obj) and divide from the right (obj / c)",
               "an empty polynomial exported by to_qutip as the number 0 is accepted as the zero operator"]
REQUIRED_SUBS = ["op.add.*", "op.sub.*", "op.matmul.*", "op.mul.*", "op.div.*", "op.neg.*", "reduce.merge", "reduce.phases",
                 "reduce.tol", "trace.poly", "trace.list", "qutip.*", "linear.rot", "linear.map"]


def shards(tier):
    q = tier == "quick"
    out = [
        {"name": "pairs.np.interp", "mode": "interp", "backend": "np", "fn": "pairs"},
        {"name": "pairs.torch", "mode": "jit", "backend": "torch", "fn": "pairs"},
        {"name": "trees.np.interp", "mode": "interp", "backend": "np", "fn": "trees", "n": 250 if q else 8000},
        {"name": "trees.torch", "mode": "jit", "backend": "torch", "fn": "trees", "n": 120 if q else 4000},
    ]
    for k in range(2 if q else 8):
        out.append({"name": "trees.np.jit.%d" % k, "mode": "jit", "backend": "np", "fn": "trees", "n": 500 if q else 20000})
    out.append({"name": "wide.np.jit", "mode": "jit", "backend": "np", "fn": "wide", "n": 3 if q else 60})
    out.append({"name": "wide.torch", "mode": "jit", "backend": "torch", "fn": "wide", "n": 2 if q else 30})
    out.append({"name": "forms.torch", "mode": "jit", "backend": "torch", "fn": "trees", "n": 60 if q else 2000, "forms": 1})
    out.append({"name": "forms.np.jit", "mode": "jit", "backend": "np", "fn": "trees", "n": 100 if q else 4000, "forms": 1})
    return out


def run(shard, rec, B):
    globals()["run_" + shard["fn"]](shard, rec, B)


# ---------------------------------------------------------------- reading objects
def kind_of(B, x):
    A = B.paulialg
    if isinstance(x, (int, float, complex, np.number)):
        return "number"
    if hasattr(A, "PauliMonomial") and isinstance(x, A.PauliMonomial):
        return "mono"
    if isinstance(x, A.Pauli):
        return "pauli"
    if isinstance(x, A.PauliPolynomial):
        return "poly"
    if isinstance(x, A.PauliList):
        return "list"
    return type(x).__name__


def dense_of(B, x, N):
    """dense matrix denoted by a library object, from its raw attributes (oracle reading)."""
    k = kind_of(B, x)
    D = 2 ** N
    if k == "number":
        return complex(x) * np.eye(D)
    if k == "pauli":
        g, p = B.gp(x)
        return O.dense(g, p)
    if k == "mono":
        g, p = B.gp(x)
        return complex(x.c) * O.dense(g, p)
    if k == "poly":
        return O.dense_poly(B.np(x.gs).reshape(-1, 2 * N), B.ph(x.ps), B.cnp(x.cs))
    if k == "list":
        gs, ps = B.gsps(x)
        return O.dense_poly(gs.reshape(-1, 2 * N), ps, np.ones(len(ps)))
    raise TypeError(k)


def describe(B, x, N):
    k = kind_of(B, x)
    if k == "number":
        return complex(x)
    if k == "pauli":
        return O.show(*B.gp(x))
    if k == "mono":
        return [O.show(*B.gp(x)), complex(x.c)]
    gs, ps = B.gsps(x)
    cs = B.cnp(x.cs) if k == "poly" else np.ones(len(ps))
    return [k] + [[O.show(g, p), complex(c)] for g, p, c in zip(gs.reshape(-1, 2 * N)[:8], ps[:8], cs[:8])]


def phased(B, x):
    k = kind_of(B, x)
    if k == "number":
        return abs(complex(x).imag) > 0
    if k in ("pauli", "mono"):
        return B.gp(x)[1] != 0 or (k == "mono" and abs(complex(x.c).imag) > 0)
    ps = B.ph(x.ps)
    return bool(np.any(ps)) or (k == "poly" and bool(np.any(np.abs(np.imag(B.cnp(x.cs))) > 0)))


# ---------------------------------------------------------------- leaves
def leaf(B, rng, N, kind, pool):
    A = B.paulialg
    def s():
        return pool[int(rng.integers(len(pool)))].copy() if rng.integers(3) else gen.rand_string(rng, N)
    if kind == "number":
        # includes numbers of modulus exactly 1 that are not fourth roots of unity, and near-units
        return [2, -1, 0.5, 1j, -1j, 1 + 2j, 0, 3.25, 0.6 + 0.8j, -0.8 + 0.6j, complex(np.exp(0.3j)), 0.28 - 0.96j, 1 + 1e-9, -1j * (1 - 1e-12),
                np.float64(-1.0), np.complex128(1j), 1.000004, 1j * (1 - 3e-6), -1 + 2e-6j, -0.999995j][int(rng.integers(20))]
    if kind == "pauli":
        return B.Pauli(s(), int(rng.integers(4)))
    if kind == "mono":
        M = B.Pauli(s(), int(rng.integers(4))).as_monomial()
        M.c = complex(gen.rand_coeffs(rng, 1)[0])
        return M
    L = int(rng.integers(1, 5))
    gs = np.stack([s() for _ in range(L)])
    ps = rng.integers(0, 4, L)
    if kind == "list":
        return B.PauliList(gs, ps)
    cs = gen.rand_coeffs(rng, L)
    if L >= 2 and rng.integers(3) == 0:       # exactly cancelling pair
        gs[1], ps[1], cs[1] = gs[0], (ps[0] + 2) % 4, cs[0]
    return B.Poly(gs, ps, cs)


LHS = ("pauli", "mono", "poly")


def kinds_for(B):
    return [k for k in LHS if k != "mono" or hasattr(B.paulialg, "PauliMonomial")]


def apply_op(op, a, b):
    if op == "add":
        return a + b
    if op == "radd":
        return b + a      # number + object
    if op == "sub":
        return a - b
    if op == "matmul":
        return a @ b
    if op == "mul":
        return a * b      # number * object
    if op == "div":
        return a / b      # object / number
    if op == "neg":
        return -a
    raise ValueError(op)


def expected(op, da, db):
    if op in ("add", "radd"):
        return da + db
    if op == "sub":
        return da - db
    if op == "matmul":
        return da @ db
    if op == "mul":
        return da @ db
    if op == "div":
        return da @ np.linalg.inv(db)
    if op == "neg":
        return -da


def check_op(rec, B, N, op, a, b, tol_scale=1.0):
    """one operator application on library objects a, b; judged against the operands' own dense matrices."""
    ka, kb = kind_of(B, a), kind_of(B, b) if b is not None else "-"
    sub = "op.%s.%s.%s" % (op, ka, kb)
    case = {"op": op, "a": describe(B, a, N), "b": describe(B, b, N) if b is not None else None}
    ok, res = rec.attempt(sub, case, lambda: apply_op(op, a, b))
    if not ok:
        return None
    da = dense_of(B, a, N)
    db = dense_of(B, b, N) if b is not None else None
    E = expected(op, da, db)
    try:
        R = dense_of(B, res, N)
    except Exception as e:
        rec.check(sub, False, case, True, expected="a Pauli object", observed="%s (%s)" % (type(res).__name__, e))
        return None
    scale = 1 + np.abs(E).max()
    tol = (1e-8 if B.name == "np" else 3e-4) * scale * tol_scale
    nt = bool(np.abs(E).max() > 1e-9) and (phased(B, a) or (b is not None and phased(B, b)))
    rec.check(sub, O.close(R, E, tol), case, nt, expected="matrix expression", observed=describe(B, res, N),
              tags={"lhs": ka, "rhs": kb, "op": op})
    # operands are not modified
    rec.check("op.pure", O.close(dense_of(B, a, N), da, 1e-12) and (b is None or O.close(dense_of(B, b, N), db, 1e-12)), case, nt)
    return res


def check_qutip(rec, B, N, x):
    k = kind_of(B, x)
    if k in ("number",):
        return
    case = describe(B, x, N)
    ok, Q = rec.attempt("qutip." + k, case, lambda: x.to_qutip())
    if not ok:
        return
    tol = 1e-9 if B.name == "np" else 1e-4
    if k == "list":
        gs, ps = B.gsps(x)
        good = len(Q) == len(ps) and all(O.close(np.asarray(q.full()), O.dense(g, p), tol) for q, g, p in zip(Q, gs, ps))
        rec.check("qutip.list", good, case, True)
        return
    E = dense_of(B, x, N)
    if isinstance(Q, (int, float, complex)):
        M = complex(Q) * np.eye(2 ** N)
        good = Q == 0 and np.abs(E).max() < 1e-12
    else:
        M = np.asarray(Q.full())
        good = O.close(M, E, tol * (1 + np.abs(E).max()))
    rec.check("qutip." + k, good, case, phased(B, x))


def check_trace(rec, B, N, x):
    k = kind_of(B, x)
    if k == "number":
        return
    case = describe(B, x, N)
    ok, t = rec.attempt("trace." + k, case, lambda: x.trace())
    if not ok:
        return
    tol = 1e-9 if B.name == "np" else 1e-4
    if k == "list":
        gs, ps = B.gsps(x)
        want = np.array([np.trace(O.dense(g, p)) for g, p in zip(gs, ps)])
        got = B.cnp(t).reshape(-1)
        rec.check("trace.list", got.shape == want.shape and np.allclose(got, want, atol=tol * 2 ** N), case, bool(np.any(ps)),
                  expected=want, observed=got)
        return
    want = np.trace(dense_of(B, x, N))
    got = complex(B.cnp(t).reshape(-1)[0]) if np.ndim(B.cnp(t)) else complex(B.cnp(t))
    tags = {}
    if k in ("pauli", "mono"):
        g, p = B.gp(x)
        c = complex(x.c) if k == "mono" else 1.0
        naive = c * (2 ** N if not g.any() else 0)
        tags = {"mech": "trace_ignores_phase" if (p != 0 and abs(got - naive) < 1e-9 and abs(want - naive * 1j ** p) < 1e-9) else ""}
    rec.check("trace." + k, abs(got - want) < tol * (1 + abs(want)), case, phased(B, x), expected=want, observed=got, tags=tags)


def check_reduce(rec, B, N, H, tol=None):
    case = describe(B, H, N)
    kw = {} if tol is None else {"tol": tol}
    t = tol if tol is not None else (1e-10 if B.name == "np" else 1e-5)
    ok, R = rec.attempt("reduce", case, lambda: H.reduce(**kw))
    if not ok:
        return
    E = dense_of(B, H, N)
    gs, ps, cs = B.np(R.gs).reshape(-1, 2 * N), B.ph(R.ps), B.cnp(R.cs)
    keys = [tuple(g.tolist()) for g in gs]
    in_keys = set(tuple(g.tolist()) for g in B.np(H.gs).reshape(-1, 2 * N))
    rec.check("reduce.merge", len(set(keys)) == len(keys) and set(keys) <= in_keys and kind_of(B, R) == "poly", case, True,
              observed=describe(B, R, N))
    rec.check("reduce.phases", not np.any(ps), case, phased(B, H), observed=describe(B, R, N))
    # keep rule: a string whose merged coefficient is clearly above the tolerance must survive
    merged = {}
    for g, pph, c in zip(B.np(H.gs).reshape(-1, 2 * N), B.ph(H.ps), B.cnp(H.cs)):
        merged[tuple(g.tolist())] = merged.get(tuple(g.tolist()), 0) + c * 1j ** int(pph)
    kept = set(tuple(g.tolist()) for g in gs)
    margin = 1.01 if B.name == "np" else 1.5
    lost = [k_ for k_, v in merged.items() if abs(v) > t * margin + (0 if B.name == "np" else 1e-6) and k_ not in kept]
    rec.check("reduce.keep", not lost, dict(op="reduce", a=case, tol=t), True, expected="terms with |c| > tol kept",
              observed=[[O.g2s(np.array(k_)), complex(merged[k_])] for k_ in lost][:4])
    ndrop = len(in_keys) - len(keys)
    err = np.abs(dense_of(B, R, N) - E).max()
    fl = 1e-9 if B.name == "np" else 3e-5 * (1 + np.abs(E).max())
    rec.check("reduce.tol", err <= t * max(ndrop, 0) + fl and (len(cs) == 0 or np.all(np.abs(cs) > t)), dict(op="reduce", a=case, tol=t), True,
              expected="operator change <= tol * #dropped strings", observed={"err": float(err), "dropped": ndrop})
    rec.check("op.pure", O.close(dense_of(B, H, N), E, 1e-12), case, True)


# ---------------------------------------------------------------- workloads
def run_pairs(shard, rec, B):
    """N=1: every single-term operand pair, every ordered type pair, every operator."""
    rng = gen.rng_for(rec)
    N = 1
    S = O.all_strings(1)
    kinds = kinds_for(B)

    def mk(kind, g, p, c):
        if kind == "pauli":
            return B.Pauli(g.copy(), p)
        if kind == "mono":
            M = B.Pauli(g.copy(), p).as_monomial()
            M.c = c
            return M
        if kind == "poly":
            return B.Poly(g[None, :].copy(), np.array([p]), np.array([c]))
        if kind == "list":
            return B.PauliList(g[None, :].copy(), np.array([p]))
    coeffs = [1.0, -0.5 + 2j]
    n = 0
    for ka in kinds:
        for g1 in S:
            for p1 in range(4):
                a = mk(ka, g1, p1, coeffs[(p1 + int(g1.sum())) % 2])
                check_trace(rec, B, N, a)
                check_qutip(rec, B, N, a)
                check_op(rec, B, N, "neg", a, None)
                for c in (1, -1, 1j, -1j, 2.5, 0.5 - 1j, 0.6 + 0.8j, -0.8 - 0.6j, complex(np.exp(2.0j)), 1.000004, 1j * (1 - 3e-6)):
                    check_op(rec, B, N, "mul", c, a)
                    check_op(rec, B, N, "div", a, c)
                for num in (2, -1.5 + 0.5j):
                    check_op(rec, B, N, "add", a, num)
                    check_op(rec, B, N, "radd", a, num)
                    check_op(rec, B, N, "sub", a, num)
                for kb in kinds + ["list"]:
                    for g2 in S:
                        for p2 in range(4):
                            b = mk(kb, g2, p2, coeffs[(p2 + int(g2.sum()) + 1) % 2])
                            n += 1
                            check_op(rec, B, N, "add", a, b)
                            check_op(rec, B, N, "sub", a, b)
                            if kb != "list":
                                check_op(rec, B, N, "matmul", a, b)
    rec.space("single-term operand pairs N=1: types x strings x phases", n)


def run_trees(shard, rec, B):
    rng = gen.rng_for(rec)
    kinds = kinds_for(B)
    # pauli_identity / pauli_zero hand out fresh objects: changing one result must not change later arithmetic with numbers
    for N in (1, 2, 3):
        A = B.paulialg
        for name in ("pauli_identity", "pauli_zero"):
            ok, a = rec.attempt("ctor.fresh", [name, N], lambda: getattr(A, name)(N))
            if not ok:
                continue
            want = np.eye(2 ** N) * (1 if name == "pauli_identity" else 0)
            try:
                a.set_cs(a.cs * 0 + 0.37)
                a.gs[0, 0] = 1
            except Exception:
                pass
            ok, b = rec.attempt("ctor.fresh", [name, N], lambda: getattr(A, name)(N))
            if ok:
                rec.check("ctor.fresh", O.close(dense_of(B, b, N), want, 1e-6), [name, N], True, observed=describe(B, b, N))
            P = B.Pauli(gen.rand_nonid(rng, N), 0)
            ok, R = rec.attempt("ctor.fresh", ["P+2", N], lambda: (P + 2, 3 + P.as_polynomial()))
            if ok:
                E = dense_of(B, P, N)
                rec.check("ctor.fresh", O.close(dense_of(B, R[0], N), E + 2 * np.eye(2 ** N), 1e-5) and O.close(dense_of(B, R[1], N), E + 3 * np.eye(2 ** N), 1e-5),
                          ["number after mutated identity", N], True)
    for t in range(shard["n"]):
        N = int(rng.integers(1, 5))
        pool = [gen.rand_string(rng, N) for _ in range(3)]

        def build(depth):
            if depth == 0 or rng.integers(4) == 0:
                return leaf(B, rng, N, kinds[int(rng.integers(len(kinds)))], pool)
            op = ["add", "sub", "matmul", "mul", "div", "neg", "radd", "reduce", "add", "matmul"][int(rng.integers(10))]
            a = build(depth - 1)
            if a is None:
                return None
            if op == "neg":
                return check_op(rec, B, N, "neg", a, None)
            if op == "mul":
                return check_op(rec, B, N, "mul", leaf(B, rng, N, "number", pool), a)
            if op == "div":
                c = leaf(B, rng, N, "number", pool)
                return check_op(rec, B, N, "div", a, c if c != 0 else 2)
            if op == "radd":
                return check_op(rec, B, N, "radd", a, leaf(B, rng, N, "number", pool))
            if op == "reduce":
                if kind_of(B, a) == "poly":
                    check_reduce(rec, B, N, a)
                    ok, R = rec.attempt("reduce", describe(B, a, N), lambda: a.reduce())
                    return R if ok else None
                return a
            kb = (kinds + ["number", "list"])[int(rng.integers(len(kinds) + 2))] if op in ("add", "sub") else kinds[int(rng.integers(len(kinds)))]
            b = build(depth - 1) if (kb not in ("number", "list") and rng.integers(2)) else leaf(B, rng, N, kb, pool)
            if b is None:
                return None
            depth_scale = 4.0 ** depth
            return check_op(rec, B, N, op, a, b, tol_scale=depth_scale)
        root = build(int(rng.integers(1, 5)))
        if root is None:
            continue
        check_trace(rec, B, N, root)
        check_qutip(rec, B, N, root)
        # extra leaves of every kind for trace / qutip / reduce with explicit tolerances
        for k in kinds + ["list"]:
            x = leaf(B, rng, N, k, pool)
            check_trace(rec, B, N, x)
            check_qutip(rec, B, N, x)
        H = leaf(B, rng, N, "poly", pool)
        ok, HH = rec.attempt("op.matmul.poly.poly", describe(B, H, N), lambda: H @ leaf(B, rng, N, "poly", pool))
        if ok:
            check_reduce(rec, B, N, HH)
            # a tolerance that really drops something: small coefficients on fresh strings
            L = int(rng.integers(2, 5))
            gs = np.unique(np.stack([gen.rand_string(rng, N) for _ in range(L)]), axis=0)
            cs = np.where(rng.integers(0, 2, len(gs)) == 1, 1e-3 * rng.normal(size=len(gs)), rng.normal(size=len(gs))).astype(complex)
            check_reduce(rec, B, N, B.Poly(gs, rng.integers(0, 4, len(gs)), cs), tol=0.05)
            # many copies of ONE string, each below the tolerance, together above it: merged first, filtered afterwards
            for tl in (None, 1e-3):
                tt = tl if tl is not None else (1e-10 if B.name == "np" else 1e-5)
                kk = int(rng.integers(20, 80))
                g1 = gen.rand_string(rng, N)
                g_other = g1.copy()
                g_other[0] ^= 1
                gdup = np.concatenate([np.stack([g1] * kk), g_other[None, :]])
                cdup = np.concatenate([np.full(kk, 0.8 * tt), [1.0]]).astype(complex)
                check_reduce(rec, B, N, B.Poly(gdup, np.zeros(len(gdup), dtype=np.int64), cdup), tol=tl)
            # coefficients spread over many decades around the tolerance: kept iff |c| > tol (default and explicit tolerances)
            dec = (10.0 ** -rng.integers(0, 13, len(gs))) * np.where(rng.integers(0, 2, len(gs)) == 1, 1, -1) * (1 + rng.random(len(gs)))
            check_reduce(rec, B, N, B.Poly(gs, rng.integers(0, 4, len(gs)), dec.astype(complex)))
            check_reduce(rec, B, N, B.Poly(gs, rng.integers(0, 4, len(gs)), dec.astype(complex)), tol=10.0 ** -int(rng.integers(2, 9)))
            # an explicit tolerance of zero (0, 0.0, a numpy zero) keeps every non-zero merged coefficient, however small
            if B.name == "np":
                tiny = dec.astype(complex) * 1e-6
                for z in (0, 0.0, np.float64(0.0)):
                    check_reduce(rec, B, N, B.Poly(gs, rng.integers(0, 4, len(gs)), tiny.copy()), tol=z)
        # linearity of rotations and maps on a polynomial; coefficients untouched
        H = leaf(B, rng, N, "poly", pool)
        hg, hp, hc = B.np(H.gs).reshape(-1, 2 * N).copy(), B.ph(H.ps).copy(), B.cnp(H.cs).copy()
        G, PG = gen.rand_nonid(rng, N), 2 * int(rng.integers(2))
        H1 = B.Poly(hg.copy(), hp.copy(), hc.copy())
        ok, _ = rec.attempt("linear.rot", describe(B, H, N), lambda: H1.rotate_by(B.Pauli(G, PG)))
        if ok:
            E = np.zeros((2 ** N, 2 ** N), dtype=complex)
            U = O.rot_unitary(G, PG)
            for g, p, c in zip(hg, hp, hc):
                E = E + c * (U.conj().T @ O.dense(g, p) @ U)
            rec.check("linear.rot", O.close(dense_of(B, H1, N), E, 1e-6 * (1 + np.abs(E).max())) and np.allclose(B.cnp(H1.cs), hc, atol=1e-6),
                      {"poly": describe(B, H, N), "G": O.show(G, PG)}, True)
        mg, mp = O.random_map(rng, N)
        H2 = B.Poly(hg.copy(), hp.copy(), hc.copy())
        ok, _ = rec.attempt("linear.map", describe(B, H, N), lambda: H2.transform_by(B.Map(mg, mp)))
        if ok:
            ig, ip = O.map_image_list(mg, mp, hg, hp)
            E = O.dense_poly(ig, ip, hc)
            rec.check("linear.map", O.close(dense_of(B, H2, N), E, 1e-6 * (1 + np.abs(E).max())) and np.allclose(B.cnp(H2.cs), hc, atol=1e-6),
                      {"poly": describe(B, H, N), "map": [O.show(g, p) for g, p in zip(mg, mp)]}, True)


def canon_terms(gs, ps, cs, tol=1e-6):
    d = {}
    for g, p, c in zip(gs, ps, cs):
        k = tuple(int(v) for v in g)
        d[k] = d.get(k, 0) + complex(c) * 1j ** int(p)
    return {k: v for k, v in d.items() if abs(v) > tol}


def same_terms(a, b, tol):
    return set(a) == set(b) and all(abs(a[k] - b[k]) <= tol * (1 + abs(a[k])) for k in a)


def run_wide(shard, rec, B):
    """polynomials on wide registers (13..130 qubits) whose strings are near-duplicates of each other (equal up to one far
    site, shared long prefixes / suffixes): merging by reduce / + / - and products are judged term by term with a dict oracle."""
    rng = gen.rng_for(rec)
    tol = 1e-9 if B.name == "np" else 1e-4
    for t in range(shard["n"]):
        for N in [13, 16, 20, 32, 33, 64, 65, 70, 130]:
            base = gen.sparse_string(rng, N, 2) if rng.integers(2) else gen.rand_string(rng, N)
            strs = [base.copy()]
            for q in (N - 1, N // 2, 12 % N, 0, int(rng.integers(N))):
                g = base.copy()
                g[2 * q + int(rng.integers(2))] ^= 1
                strs.append(g)
            strs.append(base.copy())      # an exact duplicate as well
            strs.append(np.zeros(2 * N, dtype=np.int64))
            gs = np.stack(strs)
            L = len(gs)
            ps = rng.integers(0, 4, L)
            cs = gen.rand_coeffs(rng, L) + 0.5
            H = B.Poly(gs.copy(), ps.copy(), cs.copy())
            case = {"N": N, "terms": [[O.show(g, p), complex(c)] for g, p, c in zip(gs, ps, cs)] if N <= 20 else ["%d near-duplicate strings" % L]}
            want = canon_terms(gs, ps, cs)
            ok, R = rec.attempt("reduce.wide", case, lambda: H.reduce())
            if ok:
                got = canon_terms(B.np(R.gs).reshape(-1, 2 * N), B.ph(R.ps), B.cnp(R.cs))
                rec.check("reduce.wide", same_terms(got, want, tol) and len(B.ph(R.ps)) == len(want), case, True,
                          expected="%d merged terms" % len(want), observed="%d terms" % len(B.ph(R.ps)))
            g2 = np.stack([strs[1], strs[2], gen.sparse_string(rng, N, 1)])
            p2 = rng.integers(0, 4, 3)
            c2 = gen.rand_coeffs(rng, 3) + 0.5
            K = B.Poly(g2.copy(), p2.copy(), c2.copy())
            for op, sign in (("add", 1), ("sub", -1)):
                ok, R = rec.attempt("op.%s.wide" % op, case, (lambda: H + K) if sign == 1 else (lambda: H - K))
                if ok:
                    want2 = canon_terms(np.concatenate([gs, g2]), np.concatenate([ps, p2]), np.concatenate([cs, sign * c2]))
                    got = canon_terms(B.np(R.gs).reshape(-1, 2 * N), B.ph(R.ps), B.cnp(R.cs))
                    rec.check("op.%s.wide" % op, same_terms(got, want2, tol), case, True, expected="%d terms" % len(want2), observed="%d terms" % len(got))
            ok, R = rec.attempt("op.matmul.wide", case, lambda: H @ K)
            if ok:
                eg, ep = O.mul(gs[:, None, :], ps[:, None], g2[None, :, :], p2[None, :])
                want3 = canon_terms(eg.reshape(-1, 2 * N), ep.reshape(-1), (cs[:, None] * c2[None, :]).reshape(-1))
                got = canon_terms(B.np(R.gs).reshape(-1, 2 * N), B.ph(R.ps), B.cnp(R.cs))
                rec.check("op.matmul.wide", same_terms(got, want3, tol * 10), case, True)
                ok, R2 = rec.attempt("reduce.wide", case, lambda: R.reduce())
                if ok:
                    got = canon_terms(B.np(R2.gs).reshape(-1, 2 * N), B.ph(R2.ps), B.cnp(R2.cs))
                    rec.check("reduce.wide", same_terms(got, want3, tol * 10) and len(B.ph(R2.ps)) == len(want3), dict(case, of="product"), True)
            if B.name == "torch" and N >= 120:
                continue   # 2^N does not fit the port's float32 / complex64 numbers: outside what the port can represent
            ok, tr = rec.attempt("trace.poly", case, lambda: H.trace())
            if ok:
                wanttr = sum(c * 1j ** int(p) for g, p, c in zip(gs, ps, cs) if not g.any()) * 2.0 ** N
                gottr = complex(B.cnp(tr).reshape(-1)[0]) if np.ndim(B.cnp(tr)) else complex(B.cnp(tr))
                rec.check("trace.poly", abs(gottr - wanttr) <= (1e-9 if B.name == "np" else 1e-4) * (1 + abs(wanttr)), case, True, expected=wanttr, observed=gottr)
