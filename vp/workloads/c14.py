"""C14 Mid-circuit measurement and post-selection follow the quantum trajectory."""
import itertools

import numpy as np

from .. import oracle as O
from .. import gen
from .. import env
from .. import programs as PR
from .. import circ_common as CC
from ..monitor import snapshot, snap_diff
from .c06 import Coins, binom_two_sided

RULE = ("measurement layers on every Z-subset of every valid N<=2 tableau stride (all ranks; both coin values scripted in "
        "interpreted mode); random circuits of 1..12 items mixing deterministic gates and measurement layers, N<=5, mixed "
        "inputs for forward, pure inputs for backward and post-selection, replayed on the oracle with the recorded outcomes; "
        "post-selection of every signed Pauli x both results on pure tableaux N<=2 and random N<=5; backward with recorded, "
        "supplied-possible and supplied-impossible records; take() traces with measurement layers; non-trivial = at least "
        "one undetermined measurement or a projection with probability 1/2")
ASSUMPTIONS = ["post-selection and backward are exercised on pure states (documented restriction; ValueError on mixed input is counted)",
               "trajectory oracle: stabilizer-group projection with the *recorded* outcomes; dense cross-check N<=4"]
REQUIRED_SUBS = ["ml.outcomes", "ml.log2prob", "ml.state", "ml.rank", "ml.repeat", "circ.record", "circ.log2prob", "circ.state",
                 "take.order", "ps.prob", "ps.state", "ps.impossible", "bwd.state", "bwd.raises"]
REQUIRED_CALLS = ["MeasureLayer.forward", "Circuit.take", "StabilizerState.postselect", "Circuit.backward"]


def shards(tier):
    q = tier == "quick"
    out = [
        {"name": "ml.np.interp", "mode": "interp", "backend": "np", "fn": "layers", "stride": 96 if q else 24},
        {"name": "ml.np.jit", "mode": "jit", "backend": "np", "fn": "layers", "stride": 24 if q else 1},
        {"name": "ps.np.interp", "mode": "interp", "backend": "np", "fn": "postsel", "stride": 96 if q else 24, "n": 100 if q else 3000},
        {"name": "ps.np.jit", "mode": "jit", "backend": "np", "fn": "postsel", "stride": 12 if q else 1, "n": 400 if q else 30000},
        {"name": "circ.np.interp", "mode": "interp", "backend": "np", "fn": "circuits", "n": 80 if q else 2500},
    ]
    for k in range(3 if q else 8):
        out.append({"name": "circ.np.jit.%d" % k, "mode": "jit", "backend": "np", "fn": "circuits", "n": 150 if q else 4000})
    out.append({"name": "big.np.jit", "mode": "jit", "backend": "np", "fn": "circuits", "n": 6 if q else 150, "Ns": [33, 64, 65, 66, 70, 130]})
    out.append({"name": "forms.np.jit", "mode": "jit", "backend": "np", "fn": "circuits", "n": 40 if q else 1500, "forms": 1})
    return out


def run(shard, rec, B):
    from ..monitor import Hooks
    hk = Hooks(rec)
    C = B.circuit
    hk.wrap(C.MeasureLayer, "forward")
    hk.wrap(C.MeasureLayer, "backward")
    hk.wrap(C.Circuit, "take")
    hk.wrap(C.Circuit, "forward")
    hk.wrap(C.Circuit, "backward")
    globals()["run_" + shard["fn"]](shard, rec, B)
    a0, a1 = rec.extra.get("arm.+1", 0), rec.extra.get("arm.-1", 0)
    if a0 + a1 >= 50:
        rec.check("ml.arms", a0 > 0 and a1 > 0, ["arms", rec.shard], True, observed=[a0, a1])
        if rec.mode == "jit":
            t = binom_two_sided(a0 + a1, min(a0, a1))
            rec.check("ml.fair", t > 1e-9, ["fair", rec.shard], True, observed={"arms": [a0, a1], "tail": t})


def _show(g, p):
    return [O.show(a, b) for a, b in zip(g, p)]


def zq(q, N):
    g = np.zeros(2 * N, dtype=np.int64)
    g[2 * q + 1] = 1
    return g


def replay_layer(G, qubits, results, N, rec=None):
    """project the oracle state on the recorded +-1 results of Z on `qubits` in order; returns (#undetermined, possible)."""
    nr = 0
    for q, res in zip(qubits, results):
        if res not in (1, -1):
            return nr, False
        z = zq(q, N)
        kind, _ = G.classify(z, 0)
        pr = G.project(z, 0, (1 - int(res)) // 2)
        if pr == 0:
            return nr, False
        if kind != "det":
            nr += 1
            if rec is not None:
                rec.bump("arm.%+d" % int(res))
    return nr, True


def layer_case(rec, B, tg, tp, r, qubits, coins=None):
    N = tg.shape[1] // 2
    S = B.State(tg.copy(), tp.copy(), r)
    ML = B.circuit.MeasureLayer(*qubits, N=N)
    case = {"state": {"rows": _show(tg, tp), "r": r}, "Mz": list(qubits)}
    if coins is not None:
        case["coins"] = list(coins)
        with Coins(coins):
            ok, R = rec.attempt("ml.forward", case, lambda: ML.forward(S))
    else:
        ok, R = rec.attempt("ml.forward", case, lambda: ML.forward(S))
    if not ok:
        return
    res = [int(x) for x in np.asarray(ML.result).reshape(-1)]
    G = O.GroupState.from_tableau(tg, tp, r)
    nr, possible = replay_layer(G, qubits, res, N, rec)
    nt = nr > 0
    tags = {"rank_reducing": G.r < r}
    rec.check("ml.outcomes", possible and len(res) == len(qubits) and R is S, case, nt, expected="possible +-1 outcomes in qubit order", observed=res, tags=tags)
    if not possible:
        return
    rec.check("ml.log2prob", abs(float(ML.log2prob) + nr) < 1e-9, case, nt, expected=-nr, observed=float(ML.log2prob), tags=tags)
    lg, lp, lr = B.state(S)
    probs = O.tableau_problems(lg, lp, lr)
    rec.check("ml.rank", lr == G.r and not probs, case, nt, expected=G.r, observed={"r": lr, "problems": probs}, tags=tags)
    rec.check("ml.state", O.state_key(lg, lp, lr) == G.key(), case, nt, expected={"r": G.r, "group": [O.show(np.array(g), p) for g, p in G.key()[1]]},
              observed={"r": lr, "rows": _show(lg[lr:N], lp[lr:N])}, tags=tags)
    # the same as a direct measurement of the Z list with the same outcomes (dense cross-check)
    if N <= 3:
        Rho = O.rho(tg, tp, r)
        for q, x in zip(qubits, res):
            Pi = (np.eye(2 ** N) + x * O.dense(zq(q, N), 0)) / 2
            Rho = Pi @ Rho @ Pi / np.trace(Pi @ Rho).real
        if not probs:
            rec.check("ml.dense", O.close(O.rho(lg, lp, lr), Rho), case, nt, tags=tags)
    if len(set(qubits)) == len(qubits):
        layer_backward_case(rec, B, gen.rng_for(rec, extra=len(rec.digests)), ML, qubits, res, N)
    # a second identical layer returns the same record with log2prob 0
    ML2 = B.circuit.MeasureLayer(*qubits, N=N)
    ok, _ = rec.attempt("ml.repeat", case, lambda: ML2.forward(S))
    if ok:
        res2 = [int(x) for x in np.asarray(ML2.result).reshape(-1)]
        g2, p2, r2 = B.state(S)
        rec.check("ml.repeat", res2 == res and abs(float(ML2.log2prob)) < 1e-12 and r2 == lr, case, nt,
                  expected={"result": res, "log2prob": 0.0}, observed={"result": res2, "log2prob": float(ML2.log2prob), "r": r2}, tags=tags)


def layer_backward_case(rec, B, rng, ML, qubits, res, N):
    """the layer's own backward (post-selection on its own record when none is supplied, on the supplied one otherwise) applied
    directly to pure states - the entry point circuits never use, since they always hand a slice of the circuit record over."""
    for mode in ("own", "supplied"):
        tg, tp, _ = O.random_tableau(rng, N, r=0)
        if rng.integers(2):   # start from a state in which the record is possible: the computational state with those outcomes
            tg, tp = O.map_identity(N)
            tg = np.concatenate([tg[1::2], tg[0::2]])          # rows Z_0..Z_{N-1}, then X_0..X_{N-1}
            tp = np.zeros(2 * N, dtype=np.int64)
            for q, x in zip(qubits, res):
                tp[q] = 0 if x == 1 else 2
            for q in range(N):
                if q not in qubits and rng.integers(2):
                    tp[q] = 2
            if O.tableau_problems(tg, tp, 0):
                rec.inconclusive("computational tableau invalid")
                return
            mg, mp = O.random_map(rng, N, nrot=int(rng.integers(0, 3)))
            tg, tp = O.map_image_list(mg, mp, tg, tp)
        record = list(res) if mode == "own" else [int(x) for x in rng.choice([1, -1], size=len(qubits))]
        T = B.State(tg.copy(), tp.copy(), 0)
        G = O.GroupState.from_tableau(tg, tp, 0)
        possible = True
        for ii in range(1, len(record) + 1):
            bit = (1 - record[-ii]) // 2
            if G.copy().project(zq(qubits[-ii], N), 0, bit) == 0:
                possible = False
                break
            G.project(zq(qubits[-ii], N), 0, bit)
        case = {"Mz": list(qubits), "own_record": res, "mode": mode, "record": record, "state": _show(tg[:N], tp[:N])}
        try:
            ML.backward(T) if mode == "own" else ML.backward(T, measure_result=list(record))
            got = "returned"
        except ValueError:
            got = "ValueError"
            rec.refusal("ValueError:impossible record (layer)")
        except Exception as e:
            got = "%s: %s" % (type(e).__name__, e)
        if getattr(rec, "lenient", False) and got not in ("returned", "ValueError"):
            rec.refusal("layer.bwd:" + got.split(":")[0])
        elif possible:
            lg, lp, lr = B.state(T)
            rec.check("ml.backward." + mode, got == "returned" and lr == 0 and not O.tableau_problems(lg, lp, lr) and O.state_key(lg, lp, lr) == G.key(),
                      case, len(set(record)) > 1 or len(record) == 1, expected=[O.show(np.array(a), b) for a, b in G.key()[1]],
                      observed={"call": got, "rows": _show(lg[:N], lp[:N])})
        else:
            rec.check("ml.backward.refuses", got == "ValueError", case, True, expected="ValueError", observed=got)


def layer_refusals(rec, B, rng, N):
    """a layer without a record, a record of the wrong length, and an object that is not a state are refused (ValueError /
    NotImplementedError as the layer documents) and leave the object alone."""
    k = int(rng.integers(1, N + 1))
    qubits = [int(q) for q in rng.choice(N, size=k, replace=False)]
    tg, tp, _ = O.random_tableau(rng, N, r=0)
    for what in ("no record", "short record", "long record", "not a state"):
        ML = B.circuit.MeasureLayer(*qubits, N=N)
        T = B.State(tg.copy(), tp.copy(), 0)
        try:
            if what == "no record":
                ML.backward(T)
            elif what == "short record":
                ML.backward(T, measure_result=[1] * (k - 1))
            elif what == "long record":
                ML.backward(T, measure_result=[1] * (k + 1))
            else:
                ML.forward(B.PauliList(tg[:N].copy(), tp[:N].copy()))
            got = "accepted"
        except (ValueError, NotImplementedError) as e:
            got = "refused"
            rec.refusal("%s:%s" % (type(e).__name__, what))
        except Exception as e:
            got = type(e).__name__ if not getattr(rec, "lenient", False) else "refused"
        lg, lp, lr = B.state(T)
        rec.check("ml.refuses", got == "refused" and np.array_equal(lg, tg) and np.array_equal(lp, tp % 4) and lr == 0, [what, qubits, N], True,
                  expected="refused, state untouched", observed=got)


def run_layers(shard, rec, B):
    rng = gen.rng_for(rec)
    interp = env.mode() == "interp"
    for N in (1, 2):
        maps = list(O.all_maps(N))
        st = 1 if N == 1 else shard["stride"]
        qsets = [list(c) for k in range(1, N + 1) for c in itertools.permutations(range(N), k)]
        n = 0
        for k in range(0, len(maps), st):
            tg, tp, _ = O.tableau_from_map(*maps[(k + rec.seed) % len(maps)])
            for r in range(N + 1):
                for qs in qsets:
                    n += 1
                    if interp:
                        for coins in itertools.product((0, 1), repeat=len(qs)):
                            layer_case(rec, B, tg, tp, r, qs, coins)
                    else:
                        layer_case(rec, B, tg, tp, r, qs)
        rec.space("valid tableaux N=%d (stride %d) x ranks x ordered Z-subsets" % (N, st), n, exhaustive=(st == 1))
    for t in range(150):
        N = int(rng.integers(3, 6))
        tg, tp, r = O.random_tableau(rng, N)
        qs = [int(x) for x in rng.permutation(N)[:int(rng.integers(1, N + 1))]]
        layer_case(rec, B, tg, tp, r, qs)
        if t % 10 == 0:
            layer_refusals(rec, B, rng, N)


# ---------------------------------------------------------------- post-selection
def ps_case(rec, B, tg, tp, g, p, res):
    N = tg.shape[1] // 2
    S = B.State(tg.copy(), tp.copy(), 0)
    P = B.Pauli(g.copy(), p)
    case = {"state": _show(tg[:N], tp[:N]), "pauli": O.show(g, p), "result": res}
    before = snapshot(S)
    ok, pr = rec.attempt("ps", case, lambda: S.postselect(P, res))
    if not ok:
        return
    G = O.GroupState.from_tableau(tg, tp, 0)
    want = G.project(g, p, res)
    nt = bool(g.any())
    tags = {"negative_sign": p == 2}
    rec.check("ps.prob", abs(float(pr) - want) < 1e-12, case, nt, expected=want, observed=float(pr), tags=tags)
    lg, lp, lr = B.state(S)
    if want == 0:
        rec.check("ps.impossible", float(pr) == 0.0 and not snap_diff(before, snapshot(S)), case, nt, expected="prob 0, state unchanged",
                  observed={"prob": float(pr), "changed": snap_diff(before, snapshot(S))}, tags=tags)
    else:
        probs = O.tableau_problems(lg, lp, lr)
        rec.check("ps.state", lr == 0 and not probs and O.state_key(lg, lp, lr) == G.key(), case, nt,
                  expected=[O.show(np.array(a), b) for a, b in G.key()[1]], observed={"rows": _show(lg[:N], lp[:N]), "problems": probs}, tags=tags)
        if N <= 3:
            Rho = O.rho(tg, tp, 0)
            Pi = (np.eye(2 ** N) + (-1) ** res * O.dense(g, p)) / 2
            d = np.trace(Pi @ Rho).real
            if abs(d - want) > 1e-9:
                rec.inconclusive("oracle layers disagree on post-selection probability")
            elif not probs:
                rec.check("ps.dense", O.close(O.rho(lg, lp, lr), Pi @ Rho @ Pi / d), case, nt, tags=tags)
    pg, pp = B.gp(P)
    rec.check("ps.arg_unchanged", np.array_equal(pg, g) and pp == p, case, nt)


def run_postsel(shard, rec, B):
    rng = gen.rng_for(rec)
    for N in (1, 2):
        S = O.all_strings(N)
        maps = list(O.all_maps(N))
        st = 1 if N == 1 else shard["stride"]
        n = 0
        for k in range(0, len(maps), st):
            tg, tp, _ = O.tableau_from_map(*maps[(k + rec.seed) % len(maps)])
            for g in S:
                for p in (0, 2):
                    for res in (0, 1):
                        ps_case(rec, B, tg, tp, g, p, res)
                        n += 1
        rec.space("pure tableaux N=%d (stride %d) x signed Paulis x results" % (N, st), n, exhaustive=(st == 1))
    for t in range(shard["n"]):
        N = int(rng.integers(3, 6))
        tg, tp, _ = O.random_tableau(rng, N, r=0)
        og, op = gen.commuting_hermitian_list(rng, tg, tp, 0, 1)
        ps_case(rec, B, tg, tp, og[0], int(op[0]), int(rng.integers(2)))
    # result given as numpy integer / python bool
    for t in range(20):
        N = int(rng.integers(1, 4))
        tg, tp, _ = O.random_tableau(rng, N, r=0)
        og, op = gen.commuting_hermitian_list(rng, tg, tp, 0, 1)
        res = int(rng.integers(2))
        for form, val in (("np.int64", np.int64(res)), ("bool", bool(res)), ("np.int32", np.int32(res))):
            S = B.State(tg.copy(), tp.copy(), 0)
            G = O.GroupState.from_tableau(tg, tp, 0)
            want = G.project(og[0], int(op[0]), res)
            ok, pr = rec.attempt("ps.resform." + form, [N, form], lambda: S.postselect(B.Pauli(og[0].copy(), int(op[0])), val))
            if ok:
                lg, lp, lr = B.state(S)
                rec.check("ps.resform." + form, abs(float(pr) - want) < 1e-12 and (want == 0 or O.state_key(lg, lp, lr) == G.key()),
                          {"state": _show(tg[:N], tp[:N]), "pauli": O.show(og[0], op[0]), "result": res, "form": form}, True, expected=want, observed=float(pr))
    # mixed receivers are refused
    for t in range(10):
        N = int(rng.integers(1, 4))
        tg, tp, _ = O.random_tableau(rng, N, r=0)
        S = B.State(tg.copy(), tp.copy(), int(rng.integers(1, N + 1)))
        try:
            S.postselect(B.Pauli(zq(0, N), 0), 0)
            rec.event("postselect on a mixed state returned a value (not judged)")
        except ValueError:
            rec.refusal("ValueError:postselect on mixed state")


# ---------------------------------------------------------------- circuits with measurement
def rand_items(rng, N, length):
    items = []
    for i in range(length):
        if rng.integers(3) == 0:
            qs = [int(x) for x in sorted(rng.permutation(N)[:int(rng.integers(1, N + 1))])]
            if rng.integers(4) == 0:
                qs = qs[::-1]
            if rng.integers(5) == 0:       # the same qubit listed twice: the second outcome is determined by the first
                qs = qs + [qs[int(rng.integers(len(qs)))]]
                if rng.integers(2):
                    qs = [qs[-1]] + qs[:-1]
            items.append(("m", qs))
        else:
            items.append(("g", PR.rand_spec(rng, N)))
    if not any(k == "m" for k, _ in items):
        items.insert(int(rng.integers(len(items) + 1)), ("m", [int(rng.integers(N))]))
    return items


def wide_items(rng, N):
    prog, hot = PR.wide_program(rng, N, int(rng.integers(3, 9)))
    items = [("g", s) for s in prog]
    for _ in range(int(rng.integers(1, 4))):
        qs = [int(x) for x in rng.choice(hot, size=int(rng.integers(1, 5)), replace=False)]
        items.insert(int(rng.integers(len(items) + 1)), ("m", qs))
    if rng.integers(3) == 0:
        items.append(("m", list(range(N))))     # a full-register measurement layer: N coins in one kernel call
    return items


def build_circuit(B, items, N):
    circ = B.circuit.Circuit(N)
    inserted = []
    for kind, x in items:
        if kind == "g":
            g = PR.make_gate(B, x, N)
            circ.take(g)
            inserted.append(g)
        else:
            before = circ.last_layer
            circ.measure(*[np.int64(q) if (len(inserted) + q) % 3 == 0 else q for q in x])
            inserted.append(circ.last_layer)
    return circ, inserted


def oracle_run(B, G, items, N, record, rec=None):
    """forward trajectory with a given record of +-1 outcomes; returns (#undetermined, possible, consumed)."""
    idx, nr = 0, 0
    for kind, x in items:
        if kind == "g":
            G.apply_map(*PR.spec_map_any(B, x, N))
        else:
            k, ok = replay_layer(G, x, record[idx:idx + len(x)], N, rec)
            nr += k
            idx += len(x)
            if not ok:
                return nr, False, idx
    return nr, True, idx


def oracle_back(B, G, items, N, record):
    """adjoint trajectory on a pure state: reverse order, inverse maps, projections on the record. returns possible."""
    idx = len(record)
    for kind, x in reversed(items):
        if kind == "g":
            mg, mp = PR.spec_map_any(B, x, N)
            G.apply_map(*O.map_inverse(mg, mp))
        else:
            rs = record[idx - len(x):idx]
            idx -= len(x)
            for q, res in reversed(list(zip(x, rs))):
                if G.project(zq(q, N), 0, (1 - int(res)) // 2) == 0:
                    return False
    return True


def run_circuits(shard, rec, B):
    rng = gen.rng_for(rec)
    interp = env.mode() == "interp"
    for t in range(shard["n"]):
        N = int(rng.integers(1, 6)) if not shard.get("Ns") else int(shard["Ns"][t % len(shard["Ns"])])
        items = rand_items(rng, N, int(rng.integers(1, 13))) if not shard.get("Ns") else wide_items(rng, N)
        nm = sum(len(x) for k, x in items if k == "m")
        desc = {"N": N, "items": [["Mz", x] if k == "m" else PR.describe(x) for k, x in items]}
        staged = (t % 4 in (2, 3))      # t % 4 == 2: NOT compiled again (everything after the prefix sits behind a measurement, in new layers)
        if staged:
            # ONE live Circuit: a gates-only prefix is taken and compiled (whole-circuit maps exist now), then measurement
            # layers and more gates are taken, then it is compiled again as documented; stale prefix maps must not be used
            k0 = next((i for i, (kd, _) in enumerate(items) if kd == "m"), len(items))
            desc["staged_prefix"] = k0

            def build_staged():
                c, ins = build_circuit(B, items[:k0], N) if k0 else (B.circuit.Circuit(N), [])
                c.compile()
                for kd, x in items[k0:]:
                    if kd == "g":
                        g = PR.make_gate(B, x, N)
                        c.take(g)
                        ins.append(g)
                    else:
                        c.measure(*x)
                        ins.append(c.last_layer)
                return c, ins
            ok, res = rec.attempt("circ.build", desc, build_staged)
        else:
            ok, res = rec.attempt("circ.build", desc, lambda: build_circuit(B, items, N))
        if not ok:
            continue
        circ, inserted = res
        bad, pos = PR.check_layering(circ, inserted)
        rec.check("take.order", not bad and circ.unitary is False and circ.num_of_measures == nm, desc, len(items) > 2, observed=bad[:4])
        if t % 2:
            ok, _ = rec.attempt("circ.compile", desc, lambda: circ.compile())
            if not ok:
                continue
        # ---- forward on a (possibly mixed) state, twice: the record must grow by nm each pass
        tg, tp, r = O.random_tableau(rng, N)
        total_l2p = 0.0
        for rep in range(2):
            S = B.State(tg.copy(), tp.copy(), r)
            n0 = len(circ.measure_result)
            l0 = float(circ.log2prob)
            coins = [int(x) for x in rng.integers(0, 2, nm)] if interp else None
            if coins is not None:
                with Coins(coins):
                    ok, R = rec.attempt("circ.forward", desc, lambda: circ.forward(S))
            else:
                ok, R = rec.attempt("circ.forward", desc, lambda: circ.forward(S))
            if not ok:
                break
            record = [int(x) for x in circ.measure_result[n0:]]
            case = dict(desc, state={"rows": _show(tg, tp), "r": r}, record=record, rep=rep)
            G = O.GroupState.from_tableau(tg, tp, r)
            nr, possible, used = oracle_run(B, G, items, N, record, rec)
            nt = nr > 0
            rec.check("circ.record", len(record) == nm and all(x in (1, -1) for x in record) and possible and R is S, case, nt,
                      expected="%d possible +-1 outcomes" % nm, observed=record)
            if not (possible and len(record) == nm):
                break
            rec.check("circ.log2prob", abs((float(circ.log2prob) - l0) + nr) < 1e-9, case, nt, expected=l0 - nr, observed=float(circ.log2prob))
            lg, lp, lr = B.state(S)
            probs = O.tableau_problems(lg, lp, lr)
            rec.check("circ.state", not probs and O.state_key(lg, lp, lr) == G.key(), case, nt,
                      expected={"r": G.r, "group": [O.show(np.array(a), b) for a, b in G.key()[1]]},
                      observed={"r": lr, "rows": _show(lg[lr:N], lp[lr:N]), "problems": probs})
        # ---- backward on a pure state: recorded record, a supplied possible record, a supplied impossible record
        sg, sp, _ = O.random_tableau(rng, N, r=0)
        if len(circ.measure_result) >= nm and nm:
            recs = [("recorded", None, [int(x) for x in circ.measure_result[-nm:]])]
        else:
            recs = []
        recs.append(("supplied", [int(x) for x in rng.choice([1, -1], nm)], None))
        # a record that is certainly possible for this sigma: run the adjoint greedily
        greedy = find_possible(B, sg, sp, items, N, rng)
        if greedy is not None:
            recs.append(("supplied", greedy, None))
        for how, supplied, used in recs:
            record = supplied if supplied is not None else used
            S = B.State(sg.copy(), sp.copy(), 0)
            G = O.GroupState.from_tableau(sg, sp, 0)
            possible = oracle_back(B, G, items, N, record)
            case = dict(desc, sigma=_show(sg[:N], sp[:N]), record=record, how=how)
            try:
                if supplied is not None:
                    circ.backward(S, measure_result=list(supplied))
                else:
                    circ.backward(S)
                got = "returned"
            except ValueError as e:
                got = "ValueError"
                rec.refusal("ValueError:impossible record")
            except Exception as e:
                got = "%s: %s" % (type(e).__name__, e)
            if how == "recorded":
                # the circuit's record is the circuit's: running backward does not use it up, and a measurement layer of the circuit that
                # is applied on its own to some other state afterwards does not change which trajectory the circuit recorded
                kept = [int(x) for x in circ.measure_result]
                rec.check("bwd.record_kept", kept[-nm:] == record and len(kept) >= nm, case, True, expected=record, observed=kept[-nm:])
                for lay in inserted:
                    if hasattr(lay, "result") and hasattr(lay, "log2prob") and not hasattr(lay, "gates"):
                        og, op_, orr = O.random_tableau(rng, N) if N <= 12 else O.random_tableau(rng, N, nrot=3)
                        lay.forward(B.State(og, op_, orr))
                S2 = B.State(sg.copy(), sp.copy(), 0)
                try:
                    circ.backward(S2)
                    got2 = "returned"
                except ValueError:
                    got2 = "ValueError"
                except Exception as e:
                    got2 = "%s: %s" % (type(e).__name__, e)
                if not getattr(rec, "lenient", False):
                    g2_, p2_, r2_ = B.state(S2)
                    same_again = (got2 == got) and (got != "returned" or (np.array_equal(g2_, B.state(S)[0]) and np.array_equal(p2_, B.state(S)[1])))
                    rec.check("bwd.again", same_again, case, True, expected=got, observed=got2)
            if getattr(rec, "lenient", False) and got not in ("returned", "ValueError"):
                rec.refusal("bwd:" + got.split(":")[0])     # element-type shards: a refusal is not an answer
            elif possible:
                lg, lp, lr = B.state(S)
                good = got == "returned" and lr == 0 and not O.tableau_problems(lg, lp, lr) and O.state_key(lg, lp, lr) == G.key()
                rec.check("bwd.state", good, case, True, expected=[O.show(np.array(a), b) for a, b in G.key()[1]],
                          observed={"call": got, "rows": _show(lg[:N], lp[:N])})
            else:
                rec.check("bwd.raises", got == "ValueError", case, True, expected="ValueError", observed=got)
        # wrong record length is refused
        if nm:
            try:
                circ.backward(B.State(sg.copy(), sp.copy(), 0), measure_result=[1] * (nm + 1))
                got = "returned"
            except ValueError:
                got = "ValueError"
            except Exception as e:
                got = type(e).__name__
            rec.check("bwd.badlength", got == "ValueError", desc, True, expected="ValueError", observed=got)


def find_possible(B, sg, sp, items, N, rng):
    """a record under which the adjoint trajectory of sigma does not vanish (built by the oracle, branch by branch)."""
    G = O.GroupState.from_tableau(sg, sp, 0)
    rec_rev = []
    for kind, x in reversed(items):
        if kind == "g":
            mg, mp = PR.spec_map_any(B, x, N)
            G.apply_map(*O.map_inverse(mg, mp))
        else:
            layer = []
            for q in reversed(x):
                z = zq(q, N)
                kind2, bit = G.classify(z, 0)
                b = bit if kind2 == "det" else int(rng.integers(2))
                G.project(z, 0, b)
                layer.append(1 - 2 * b)
            rec_rev.append(layer[::-1])
    out = []
    for layer in reversed(rec_rev):
        out.extend(layer)
    return out
