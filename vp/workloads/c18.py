"""C18 diagonalize and SBRG return circuits that really diagonalize."""
import itertools

import numpy as np

from .. import oracle as O
from .. import gen

RULE = ("every non-identity string x all 4 phases x every target qubit x causal on/off for N<=4 (causal: every string whose part "
        "on qubits >= i0 is non-identity), also as monomials; signed pure tableaux: all N=1, a stride over N=2, random N<=6; "
        "commuting Hamiltonians (signed random group elements with real coefficients, with and without an identity term and "
        "duplicate strings) and arbitrary real Hamiltonians, N<=5; non-trivial = operator not already Z on the target")
ASSUMPTIONS = ["SBRG inputs have real coefficients and Hermitian terms", "states handed to diagonalize are pure",
               "states compared as density matrices / canonical signed groups"]
REQUIRED_SUBS = ["diag.pauli", "diag.causal.target", "diag.causal.support", "diag.state.fwd", "diag.state.bwd",
                 "sbrg.diagonal", "sbrg.exact", "sbrg.spectrum"]


def shards(tier):
    q = tier == "quick"
    out = [
        {"name": "pauli.np.interp", "mode": "interp", "backend": "np", "fn": "paulis", "Ns": [1, 2, 3]},
        {"name": "pauli.np.jit", "mode": "jit", "backend": "np", "fn": "paulis", "Ns": [1, 2, 3, 4] if q else [1, 2, 3, 4, 5]},
        {"name": "pauli.torch", "mode": "jit", "backend": "torch", "fn": "paulis", "Ns": [1, 2, 3] if q else [1, 2, 3, 4]},
        {"name": "state.np.interp", "mode": "interp", "backend": "np", "fn": "states", "stride": 96 if q else 8, "n": 100 if q else 3000},
        {"name": "state.np.jit", "mode": "jit", "backend": "np", "fn": "states", "stride": 24 if q else 1, "n": 400 if q else 30000},
        {"name": "state.torch", "mode": "jit", "backend": "torch", "fn": "states", "stride": 192 if q else 16, "n": 60 if q else 2000},
        {"name": "sbrg.np.interp", "mode": "interp", "backend": "np", "fn": "sbrg", "n": 60 if q else 2000},
        {"name": "sbrg.np.jit", "mode": "jit", "backend": "np", "fn": "sbrg", "n": 250 if q else 12000},
    ]
    if not q:
        for k in range(4):
            out.append({"name": "sbrg.np.jit.%d" % k, "mode": "jit", "backend": "np", "fn": "sbrg", "n": 12000})
    return out


def run(shard, rec, B):
    globals()["run_" + shard["fn"]](shard, rec, B)


def _show(g, p):
    return [O.show(a, b) for a, b in zip(g, p)]


def gate_qubits(circ):
    out = []
    for layer in circ.layers_forward():
        for g in layer.gates:
            out.append([int(q) for q in g.qubits])
    return out


def zstring(i0, N):
    g = np.zeros(2 * N, dtype=np.int64)
    g[2 * i0 + 1] = 1
    return g


def check_pauli(rec, B, g, p, i0, causal, rng, mono=False):
    N = len(g) // 2
    C = B.circuit
    P = B.Pauli(g.copy(), p)
    if mono:
        P = P.as_monomial()
        P.c = 0.5 - 1j
    case = {"P": O.show(g, p), "i0": i0, "causal": causal, "mono": mono}
    flag = causal
    if B.name == "np":   # the flag may arrive as any truthy / falsy value (numpy bool from a comparison, 0/1)
        flag = [causal, np.bool_(causal), int(causal)][(int(g.sum()) + i0 + p) % 3]
    case["flag"] = repr(flag)
    ok, circ = rec.attempt("diag.build", case, lambda: C.diagonalize(P, i0, causal=flag))
    if not ok:
        return
    pg, pp = B.gp(P)
    rec.check("diag.arg_unchanged", np.array_equal(pg, g) and pp == p, case, True)
    Q = B.Pauli(g.copy(), p)
    ok, _ = rec.attempt("diag.forward", case, lambda: circ.forward(Q))
    if not ok:
        return
    qg, qp = B.gp(Q)
    nt = not (np.array_equal(g, zstring(i0, N)))
    if not causal:
        rec.check("diag.pauli", np.array_equal(qg, zstring(i0, N)) and qp % 2 == p % 2, case, nt,
                  expected="+-" + O.g2s(zstring(i0, N)), observed=O.show(qg, qp))
    else:
        want = g.copy()
        want[2 * i0:] = 0
        want[2 * i0 + 1] = 1
        rec.check("diag.causal.target", np.array_equal(qg, want) and qp % 2 == p % 2, case, nt, expected="+-" + O.g2s(want), observed=O.show(qg, qp))
        gq = gate_qubits(circ)
        good = all(q >= i0 for qs in gq for q in qs)
        # bitwise: columns of earlier qubits untouched on arbitrary operators
        L = B.PauliList(gen.rand_list(rng, 6, N), rng.integers(0, 4, 6))
        l0 = B.gsps(L)[0].copy()
        ok, _ = rec.attempt("diag.causal.support", case, lambda: circ.forward(L))
        if ok:
            good = good and np.array_equal(B.gsps(L)[0][:, :2 * i0], l0[:, :2 * i0])
        rec.check("diag.causal.support", good, case, i0 > 0, expected="gates on qubits >= %d only" % i0, observed=gq)
    # the circuit is a valid unitary circuit: backward restores the operator
    ok, _ = rec.attempt("diag.backward", case, lambda: circ.backward(Q))
    if ok:
        bg, bp = B.gp(Q)
        rec.check("diag.undo", np.array_equal(bg, g) and bp == p, case, nt)


def run_paulis(shard, rec, B):
    rng = gen.rng_for(rec)
    for N in shard["Ns"]:
        S = O.all_strings(N)[1:]
        n = 0
        for g in S:
            for i0 in range(N):
                for p in range(4):
                    if N >= 4 and (p + int(g.sum()) + i0) % 2:
                        continue
                    check_pauli(rec, B, g, p, i0, False, rng, mono=(B.name == "np" and p == 1 and i0 == 0))
                    n += 1
                    if g[2 * i0:].any():
                        check_pauli(rec, B, g, p, i0, True, rng)
                        n += 1
        rec.space("non-identity strings x phases x targets x causal, N=%d" % N, n, exhaustive=(N < 4))
    for t in range(40):
        N = int(rng.integers(5, 10))
        g = gen.rand_nonid(rng, N)
        i0 = int(rng.integers(N))
        check_pauli(rec, B, g, int(rng.integers(4)), i0, False, rng)
        if g[2 * i0:].any():
            check_pauli(rec, B, g, int(rng.integers(4)), i0, True, rng)


def check_state(rec, B, tg, tp):
    N = tg.shape[1] // 2
    C = B.circuit
    S = B.State(tg.copy(), tp.copy(), 0)
    case = {"stabilizers": _show(tg[:N], tp[:N]), "destabilizers": _show(tg[N:], tp[N:])}
    ok, circ = rec.attempt("diag.state.build", case, lambda: C.diagonalize(S))
    if not ok:
        return
    sg, sp, sr = B.state(S)
    rec.check("diag.arg_unchanged", np.array_equal(sg, tg) and np.array_equal(sp, tp % 4) and sr == 0, case, True)
    zg = np.zeros((N, 2 * N), dtype=np.int64)
    for k in range(N):
        zg[k, 2 * k + 1] = 1
    zero_key = O.canon_group(zg, np.zeros(N, dtype=np.int64))
    nt = bool(tp[:N].any()) or not np.array_equal(tg[:N], zg)
    # the returned circuit is an ordinary circuit: a copy taken before it was ever used, and a compiled copy, diagonalize as well
    if hasattr(circ, "copy"):
        for how in ("copy", "copy.compiled"):
            ok, twin = rec.attempt("diag.state.copy", case, lambda: circ.copy())
            if ok and how == "copy.compiled":
                ok, _ = rec.attempt("diag.state.copy", case, lambda: twin.compile(N))
            if ok:
                F2 = B.State(tg.copy(), tp.copy(), 0)
                ok, _ = rec.attempt("diag.state.copy", case, lambda: twin.forward(F2))
                if ok:
                    fg, fp, fr = B.state(F2)
                    Z2 = twin.backward(B.stabilizer.zero_state(N))
                    bg, bp, br = B.state(Z2)
                    rec.check("diag.state.copy", fr == 0 and O.state_key(fg, fp, fr) == (0,) + zero_key and O.state_key(bg, bp, br) == O.state_key(tg, tp, 0),
                              dict(case, how=how), nt, expected="|0...0> forward, the state backward", observed=_show(fg[:N], fp[:N]))
    F = B.State(tg.copy(), tp.copy(), 0)
    ok, _ = rec.attempt("diag.state.fwd", case, lambda: circ.forward(F))
    if ok:
        fg, fp, fr = B.state(F)
        rec.check("diag.state.fwd", fr == 0 and O.state_key(fg, fp, fr) == (0,) + zero_key, case, nt,
                  expected="|0...0>", observed=_show(fg[:N], fp[:N]))
    ok, Z = rec.attempt("diag.state.bwd", case, lambda: circ.backward(B.stabilizer.zero_state(N)))
    if ok:
        bg, bp, br = B.state(Z)
        rec.check("diag.state.bwd", br == 0 and O.state_key(bg, bp, br) == O.state_key(tg, tp, 0), case, nt,
                  expected=_show(tg[:N], tp[:N]), observed=_show(bg[:N], bp[:N]))


def run_states(shard, rec, B):
    rng = gen.rng_for(rec)
    for N in (1, 2):
        maps = list(O.all_maps(N))
        st = 1 if N == 1 else shard["stride"]
        n = 0
        for k in range(0, len(maps), st):
            tg, tp, _ = O.tableau_from_map(*maps[(k + rec.seed) % len(maps)])
            check_state(rec, B, tg, tp)
            n += 1
        rec.space("pure signed tableaux N=%d (stride %d)" % (N, st), n, exhaustive=(st == 1))
    for t in range(shard["n"]):
        N = int(rng.integers(3, 7 if B.name == "np" else 5))
        tg, tp, _ = O.random_tableau(rng, N, r=0, nrot=4 * N)
        check_state(rec, B, tg, tp)


def check_sbrg(rec, B, gs, ps, cs, commuting, kwargs=None):
    N = gs.shape[1] // 2
    C = B.circuit
    H = B.Poly(gs.copy(), ps.copy(), cs.copy())
    case = {"H": [[O.show(g, p), float(np.real(c))] for g, p, c in zip(gs, ps, cs)], "commuting": commuting}
    ok, res = rec.attempt("sbrg", case, lambda: C.SBRG(H, **(kwargs or {})))
    if not ok:
        return
    heff, circ = res
    hg, hp, hc = B.np(heff.gs).reshape(-1, 2 * N), B.ph(heff.ps), B.cnp(heff.cs)
    rec.check("sbrg.diagonal", not np.any(hg[:, 0::2]), case, True, expected="only I/Z strings",
              observed=[[O.show(g, p), complex(c)] for g, p, c in zip(hg, hp, hc)][:8])
    g0, p0 = B.gsps(H)
    rec.check("sbrg.arg_unchanged", np.array_equal(g0, gs) and np.array_equal(p0, ps % 4) and np.allclose(B.cnp(H.cs), cs), case, True)
    if not commuting:
        return
    has_id = bool(np.any(~gs.any(axis=1)))
    tags = {"identity_term": has_id}
    HH = B.Poly(gs.copy(), ps.copy(), cs.copy())
    ok, _ = rec.attempt("sbrg.forward", case, lambda: circ.forward(HH))
    if ok:
        A = O.dense_poly(B.np(HH.gs).reshape(-1, 2 * N), B.ph(HH.ps), B.cnp(HH.cs))
        E = O.dense_poly(hg, hp, hc)
        scale = 1 + np.abs(A).max()
        rec.check("sbrg.exact", O.close(A, E, 1e-7 * scale), case, True, expected="circ.forward(H) == heff",
                  observed=[[O.show(g, p), complex(c)] for g, p, c in zip(hg, hp, hc)][:8], tags=tags)
    D0 = O.dense_poly(gs, ps, cs)
    E = O.dense_poly(hg, hp, hc)
    w0 = np.sort(np.linalg.eigvalsh((D0 + D0.conj().T) / 2))
    w1 = np.sort(np.linalg.eigvalsh((E + E.conj().T) / 2))
    rec.check("sbrg.spectrum", np.allclose(w0, w1, atol=1e-7 * (1 + np.abs(w0).max())), case, True, expected=w0[:8], observed=w1[:8], tags=tags)


def run_sbrg(shard, rec, B):
    rng = gen.rng_for(rec)
    for t in range(shard["n"]):
        N = int(rng.integers(1, 6))
        commuting = t % 2 == 0
        if commuting:
            tg, tp, _ = O.random_tableau(rng, N, r=0, nrot=3 * N)
            L = int(rng.integers(1, 2 * N + 2))
            gs, ps = [], []
            for k in range(L):
                sel = rng.integers(0, 2, N)
                g, p = np.zeros(2 * N, dtype=np.int64), 0
                for a in np.nonzero(sel)[0]:
                    g, p = O.mul(g, p, tg[a], tp[a])
                gs.append(g)
                ps.append(int(p))
            if t % 4 == 0:
                gs.append(np.zeros(2 * N, dtype=np.int64))
                ps.append(0)
            gs, ps = np.stack(gs), np.array(ps)
        else:
            L = int(rng.integers(1, 9))
            gs = gen.rand_list(rng, L, N)
            ps = 2 * rng.integers(0, 2, L)
        cs = rng.normal(size=len(gs)).astype(complex)
        if not commuting and t % 3 == 0:
            # coefficients spread over many decades: second-order terms fall below the tolerance
            cs = (cs * 10.0 ** -rng.integers(0, 8, len(cs))).astype(complex)
        if t % 4 == 1 or t % 8 == 2:
            # round coefficients (unit couplings are what model Hamiltonians are written with); ties in magnitude included
            cs = rng.choice(np.array([1.0, -1.0, 1.0, -1.0, 0.5, -0.5, 2.0, -2.0, 1.5]), size=len(cs)).astype(complex)
        if t % 6 == 0 and commuting and len(cs) > 1:
            # make an identity / early term the leading one
            cs[-1] = 3.0 * np.sign(cs[-1].real or 1.0)
        kw = None
        if t % 5 == 0:
            kw = {"max_rate": 1.0, "tol": 1e-6}
        elif t % 5 == 1:
            kw = {"max_rate": [0, 0.4, 0.5, 1, 3.7, 0.0][(t // 5) % 6]}
        check_sbrg(rec, B, gs, ps, cs, commuting, kw)
