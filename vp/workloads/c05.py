"""C05 Every reachable stabilizer state is a valid density matrix (tableau invariant)."""
import itertools

import numpy as np

from .. import oracle as O
from .. import gen
from .. import env
from .. import programs as PR
from .c06 import Coins

RULE = ("one-step closure: from EVERY valid tableau for N=1 (48) and N=2 (34560 = 11520 oracle-enumerated maps x r in {0,1,2}) every "
        "operation of the alphabet (rotation by every signed generator, masked rotations, map transformations by a generating set, "
        "masked maps, every named gate forward/backward, measurement of every signed string (both coin values in interpreted mode), "
        "measurement pairs, post-selection of every signed string x both results, copy, map round trip, measurement layers, a "
        "circuit with mid-circuit measurement, classical-shadow snapshots, queries) is applied once and the successor checked - the "
        "inductive step of the invariant over all histories for N<=2; breadth-first reachability from the constructors; random walks "
        "of 200 (quick) / 2000 (thorough) operations for N=3..8; distinct = distinct (tableau, operation) pairs; every pair is non-trivial")
ASSUMPTIONS = ["invariant: r integer in [0,N]; gs binary (2N x 2N); ps integral; active stabilizer phases even; row a anticommutes with row "
               "a+-N and nothing else (=> N-r commuting independent Hermitian generators, -I not in the group); dense cross-check "
               "(Hermitian, trace 1, rho^2 = rho/2^r) on a sample",
               "operations receive well-formed arguments (Hermitian generators / observables, valid maps, commuting lists)"]
REQUIRED_SUBS = ["closure.*", "walk.*", "ctor.*"]
REQUIRED_CALLS = ["StabilizerState.measure", "StabilizerState.rotate_by", "StabilizerState.transform_by", "StabilizerState.postselect",
                  "StabilizerState.copy", "arm.p==r", "arm.q==r", "arm.else", "arm.no-extend"]


def shards(tier):
    q = tier == "quick"
    out = [{"name": "ctor.np.interp", "mode": "interp", "backend": "np", "fn": "ctor"},
           {"name": "bfs.np.jit", "mode": "jit", "backend": "np", "fn": "bfs", "Ns": [1] if q else [1, 2]}]
    nj = 12 if q else 14
    for i in range(nj):
        # quick: every 2nd valid N=2 tableau (offset by the seed); thorough: all 34560 (the complete inductive step)
        out.append({"name": "closure.np.jit.%d" % i, "mode": "jit", "backend": "np", "fn": "closure", "part": i, "parts": nj,
                    "stride": 2 if q else 1})
    for i in range(2 if q else 8):
        out.append({"name": "closure.np.interp.%d" % i, "mode": "interp", "backend": "np", "fn": "closure", "part": i, "parts": 2 if q else 8,
                    "stride": 40 if q else 2})
    for i in range(2 if q else 10):
        out.append({"name": "walk.np.jit.%d" % i, "mode": "jit", "backend": "np", "fn": "walk", "n": 40 if q else 100, "len": 200 if q else 2000})
    out.append({"name": "walk.np.interp", "mode": "interp", "backend": "np", "fn": "walk", "n": 10 if q else 100, "len": 150 if q else 600})
    out.append({"name": "wide.np.jit", "mode": "jit", "backend": "np", "fn": "wide", "n": 1 if q else 12, "len": 40 if q else 150})
    return out


def run(shard, rec, B):
    globals()["run_" + shard["fn"]](shard, rec, B)


# ---------------------------------------------------------------- invariant with a cache of validated tableaux
class Inv(object):
    def __init__(self, rec, B):
        self.rec, self.B = rec, B
        self.ok_cache = set()
        self.n = {}
        self.distinct = set()
        self.dense_every = 997
        self.count = 0

    def check(self, S, op, src):
        """S: library state after operation `op` applied to source description `src` (lazy callable -> json)."""
        self.count += 1
        self.n[op] = self.n.get(op, 0) + 1
        try:
            g, p, r = S.gs, S.ps, S.r
            key = (np.asarray(g).tobytes(), np.asarray(p).tobytes(), r, np.asarray(g).dtype.str, np.asarray(g).shape)
        except Exception as e:
            self.rec.violation("inv.shape", src(), expected="a state", observed=repr(e))
            return False
        if key in self.ok_cache and self.count % self.dense_every:
            return True
        probs = O.tableau_problems(g, p, r)
        if not probs and self.count % self.dense_every == 0 and np.asarray(g).shape[0] <= 10:
            R = O.rho(np.asarray(g).astype(np.int64), np.asarray(p).astype(np.int64) % 4, int(r))
            if not (O.close(R, R.conj().T) and abs(np.trace(R) - 1) < 1e-9 and O.close(R @ R, R / 2 ** int(r))):
                probs = ["dense: not a normalised projector of rank 2^r"]
            self.rec.counts["inv.dense"] = self.rec.counts.get("inv.dense", 0) + 1
        if probs:
            kind = "inv.symplectic" if "pattern" in probs[0] else ("inv.herm" if "imaginary" in probs[0] else ("inv.r" if "r=" in probs[0] else "inv.binary"))
            self.rec.violation("%s.%s" % (kind, op), src(), expected="valid tableau",
                               observed={"problems": probs, "rows": [O.show(a, b) for a, b in zip(np.asarray(g).astype(int) % 2, np.asarray(p).astype(int))] if np.asarray(g).ndim == 2 else None, "r": r},
                               tags={"op": op})
            self.rec.fail_counts["closure." + op] = self.rec.fail_counts.get("closure." + op, 0) + 1
            return False
        self.ok_cache.add(key)
        self.distinct.add(key[:3])
        return True

    def flush(self, prefix, keys):
        for op, n in self.n.items():
            self.rec.counts["%s.%s" % (prefix, op)] = self.rec.counts.get("%s.%s" % (prefix, op), 0) + n
        self.rec.batch(prefix + ".pairs", 0, len(keys), keys)
        self.rec.bump("distinct_successor_tableaux", len(self.distinct))
        self.n = {}


def arm_of(tg, r, g):
    """which arm of the rank-reduction swap logic a measurement of string g will take on tableau tg (for coverage evidence):
    computed with the oracle's commutation table and the documented pivot rule (first anticommuting non-destabilizer row, active first)."""
    N = tg.shape[1] // 2
    order = [(j + r) % N for j in range(N)] + list(range(N, 2 * N))
    for j in order:
        if j < N + r and O.anti(tg[j], g):
            if r <= j < N:
                return "no-extend"
            rn = r - 1
            q = (j + N) % (2 * N)
            return "p==r" if j == rn else ("q==r" if q == rn else "else")
    return "determined"


# ---------------------------------------------------------------- the alphabet (built once per N)
def alphabet(B, N, rng):
    C, st = B.circuit, B.stabilizer
    S = O.all_strings(N)
    ops = []

    def add(name, fn, pure_only=False):
        ops.append((name, fn, pure_only))
    for g in S:
        for p in (0, 2):
            P = B.Pauli(g.copy(), p)
            add("rotate", lambda s, P=P: s.rotate_by(P))
    if N == 2:
        for qb in (0, 1):
            m = np.zeros(2, dtype=bool)
            m[qb] = True
            for g in O.all_strings(1):
                for p in (0, 2):
                    P = B.Pauli(g.copy(), p)
                    add("rotate.mask", lambda s, P=P, m=m: s.rotate_by(P, mask=m))
    maps = list(O.all_maps(1)) if N == 1 else None
    if N == 1:
        for mg, mp in maps:
            M = B.Map(mg, mp)
            add("transform", lambda s, M=M: s.transform_by(M))
    else:
        from .c04 import generating_set
        for mg, mp in generating_set():
            M = B.Map(mg, mp)
            add("transform", lambda s, M=M: s.transform_by(M))
        for _ in range(3):
            mg, mp = O.random_map(rng, 2)
            M = B.Map(mg, mp)
            add("transform", lambda s, M=M: s.transform_by(M))
        for qb in (0, 1):
            m = np.zeros(2, dtype=bool)
            m[qb] = True
            for k in (1, 7, 16, 22):
                mg, mp = list(O.all_maps(1))[k]
                M = B.Map(mg, mp)
                add("transform.mask", lambda s, M=M, m=m: s.transform_by(M, mask=m))
    for nm in ("H", "S", "X", "Y", "Z"):
        for qb in range(N):
            G = getattr(C, nm)(qb)
            add("gate." + nm, lambda s, G=G: G.forward(s))
            add("gate." + nm + ".back", lambda s, G=G: G.backward(s))
    for k in (0, 5, 6, 13, 19, 23):
        G = C.C(k, N - 1)
        add("gate.C", lambda s, G=G: G.forward(s))
    if N == 2:
        for c, t in ((0, 1), (1, 0)):
            G = C.CNOT(c, t)
            add("gate.CNOT", lambda s, G=G: G.forward(s))
            add("gate.CNOT.back", lambda s, G=G: G.backward(s))
    gate = C.clifford_rotation_gate(B.Pauli(S[-1].copy(), 2))
    add("gate.rotation", lambda s, gate=gate: gate.forward(s))
    # measurements (coins handled by the caller)
    meas = []
    for g in S:
        for p in (0, 2):
            meas.append((g, p, B.PauliList(g[None, :].copy(), np.array([p]))))
    pairs = []
    if N == 2:
        for (a, b) in ((1, 4), (5, 10), (3, 12), (15, 15), (6, 9), (0, 7)):
            if not O.anti(S[a], S[b]):
                pairs.append(B.PauliList(np.stack([S[a], S[b]]), np.array([0, 2])))
    post = []
    for g in S:
        for p in (0, 2):
            for res in (0, 1):
                P = B.Pauli(g.copy(), p)
                post.append((P, res))
    add("copy", lambda s: s.copy())
    add("roundtrip", lambda s: s.to_map().to_state(s.r))
    for qs in ([0], [N - 1, 0] if N == 2 else [0]):
        add("measure_layer", lambda s, qs=qs: C.MeasureLayer(*qs, N=N).forward(s))

    def circ_op(s):
        c = C.Circuit(N)
        c.take(C.H(0))
        c.measure(0)
        if N == 2:
            c.take(C.CNOT(0, 1))
            c.measure(1, 0)
        return c.forward(s)
    add("circuit", circ_op)

    def shadow_op(s):
        return list(B.lib.ClassicalShadow(s, C.onsite_rcc(N)).snapshots(1))[0]
    add("shadow", shadow_op)

    def shadow_g(s):
        return list(B.lib.ClassicalShadow(s, C.global_rcc(N)).snapshots(1))[0]
    add("shadow.global", shadow_g)
    add("diagonalize", lambda s: C.diagonalize(s).forward(s), True)
    queries = B.PauliList(S.copy(), np.zeros(len(S), dtype=np.int64))

    def query_op(s):
        s.expect(queries)
        s.entropy([0])
        s.entropy(list(range(N)))
        s.entropy([N - 1])
        s.sample(3)
        s.density_matrix
        if s.r == 0:
            s.get_prob(np.zeros(N, dtype=np.int64))
        return s
    add("queries", query_op)
    return ops, meas, pairs, post


def run_closure(shard, rec, B):
    rng = gen.rng_for(rec)
    interp = env.mode() == "interp"
    inv = Inv(rec, B)
    for N in (1, 2):
        ops, meas, pairs, post = alphabet(B, N, rng)
        maps = list(O.all_maps(N))
        st = 1 if N == 1 else shard["stride"]
        off = rec.seed % st
        idxs = [k for i, k in enumerate(range(off, len(maps), st)) if i % shard["parts"] == shard["part"]]
        keys = []
        ntab = 0
        for k in idxs:
            tg, tp, _ = O.tableau_from_map(*maps[k])
            for r in range(N + 1):
                ntab += 1
                tid = (N * 100000 + k) * 4 + r

                def src(op="?", k=k, r=r, tg=tg, tp=tp):
                    return {"N": N, "tableau": [O.show(a, b) for a, b in zip(tg, tp)], "r": r, "op": op}
                oi = 0
                for name, fn, pure_only in ops:
                    oi += 1
                    if pure_only and r != 0:
                        continue
                    s = B.State(tg.copy(), tp.copy(), r)
                    try:
                        res = fn(s)
                    except Exception as e:
                        rec.violation("closure.%s.raises" % name, src(name), expected="a result", observed="%s: %s" % (type(e).__name__, str(e)[:200]),
                                      tags={"exception": type(e).__name__})
                        continue
                    inv.check(s, name, lambda name=name: src(name))
                    if res is not s and hasattr(res, "gs") and hasattr(res, "r"):
                        inv.check(res, name + ".result", lambda name=name: src(name))
                    keys.append(tid * 1024 + oi)
                for mi, (g, p, L) in enumerate(meas):
                    arm = arm_of(tg, r, g)
                    rec.event("arm." + arm)
                    for coin in ((0, 1) if interp else (None,)):
                        s = B.State(tg.copy(), tp.copy(), r)
                        try:
                            if coin is None:
                                s.measure(L)
                            else:
                                with Coins([coin]):
                                    s.measure(L)
                        except Exception as e:
                            rec.violation("closure.measure.raises", src("measure " + O.show(g, p)), expected="a result",
                                          observed="%s: %s" % (type(e).__name__, str(e)[:200]), tags={"exception": type(e).__name__})
                            continue
                        inv.check(s, "measure", lambda g=g, p=p, coin=coin: src("measure %s coin=%s" % (O.show(g, p), coin)))
                        keys.append(tid * 1024 + 300 + mi * 2 + (coin or 0))
                for pi, L in enumerate(pairs):
                    for coins in (((0, 0), (0, 1), (1, 0), (1, 1)) if interp else (None,)):
                        s = B.State(tg.copy(), tp.copy(), r)
                        try:
                            if coins is None:
                                s.measure(L)
                            else:
                                with Coins(coins):
                                    s.measure(L)
                        except Exception as e:
                            rec.violation("closure.measure2.raises", src("measure pair %d" % pi), expected="a result",
                                          observed="%s: %s" % (type(e).__name__, str(e)[:200]))
                            continue
                        inv.check(s, "measure2", lambda pi=pi, coins=coins: src("measure pair %d coins=%s" % (pi, coins)))
                        keys.append(tid * 1024 + 500 + pi * 4 + (coins[0] * 2 + coins[1] if coins else 0))
                if r == 0:
                    for qi, (P, res) in enumerate(post):
                        s = B.State(tg.copy(), tp.copy(), 0)
                        try:
                            s.postselect(P, res)
                        except Exception as e:
                            rec.violation("closure.postselect.raises", src("postselect"), expected="a result",
                                          observed="%s: %s" % (type(e).__name__, str(e)[:200]))
                            continue
                        inv.check(s, "postselect", lambda qi=qi: src("postselect #%d" % qi))
                        keys.append(tid * 1024 + 600 + qi)
        rec.space("valid tableaux N=%d: part %d/%d of stride %d (x full operation alphabet)" % (N, shard["part"], shard["parts"], st),
                  ntab, exhaustive=(st == 1))
        inv.flush("closure", keys)


# ---------------------------------------------------------------- constructors
def run_ctor(shard, rec, B):
    rng = gen.rng_for(rec)
    st = B.stabilizer
    inv = Inv(rec, B)
    keys = []
    for N in range(1, 7):
        for name in ("zero_state", "one_state", "ghz_state", "maximally_mixed_state", "random_bit_state", "random_pauli_state", "random_clifford_state"):
            for rep in range(1 if name in ("zero_state", "one_state", "ghz_state", "maximally_mixed_state") else 10):
                try:
                    s = getattr(st, name)(N)
                except Exception as e:
                    rec.violation("ctor.%s.raises" % name, N, expected="a state", observed="%s: %s" % (type(e).__name__, e))
                    continue
                inv.check(s, name, lambda name=name, N=N: {"ctor": name, "N": N})
                keys.append(hash((name, N, rep)) & 0xFFFFFFFFFFFF)
        # stabilizer_state from every commuting independent list of a few base groups, every length, all signs (N<=3)
        for rep in range(6):
            for L in range(1, N + 1):
                gs, ps = gen.independent_commuting(rng, N, L)
                signsets = itertools.product((0, 2), repeat=L) if N <= 3 else [tuple(ps)]
                for signs in signsets:
                    try:
                        s = st.stabilizer_state(B.PauliList(gs.copy(), np.array(signs)))
                    except Exception as e:
                        rec.violation("ctor.stabilizer_state.raises", [N, L], expected="a state", observed="%s: %s" % (type(e).__name__, e))
                        continue
                    inv.check(s, "stabilizer_state", lambda gs=gs, signs=signs: {"ctor": "stabilizer_state", "list": [O.show(a, b) for a, b in zip(gs, signs)]})
                    keys.append(hash((N, rep, L, signs)) & 0xFFFFFFFFFFFF)
        for rep in range(5):
            mg, mp = O.random_map(rng, N)
            for r in (None, 0, N, int(rng.integers(0, N + 1))):
                s = B.Map(mg, mp).to_state() if r is None else B.Map(mg, mp).to_state(r)
                inv.check(s, "to_state", lambda: {"ctor": "to_state", "map": [O.show(a, b) for a, b in zip(mg, mp)], "r": r})
                keys.append(hash((N, rep, r, "ts")) & 0xFFFFFFFFFFFF)
    inv.flush("ctor", keys)


# ---------------------------------------------------------------- reachability from the constructors
def run_bfs(shard, rec, B):
    rng = gen.rng_for(rec)
    st, C = B.stabilizer, B.circuit
    inv = Inv(rec, B)
    for N in shard.get("Ns", [1, 2]):
        S = O.all_strings(N)
        gens = [B.Pauli(g.copy(), p) for g in S[1:] for p in (0, 2)]
        meas = [B.PauliList(g[None, :].copy(), np.array([p])) for g in S for p in (0, 2)]
        seeds = [st.zero_state(N), st.one_state(N), st.maximally_mixed_state(N)] + ([st.ghz_state(N)] if N == 2 else [])
        seen = {}
        frontier = []
        for s in seeds:
            g, p, r = B.state(s)
            k = (g.tobytes(), (p % 4).tobytes(), r)
            if k not in seen:
                seen[k] = (g, p % 4, r)
                frontier.append(k)
        trans = 0
        tries = {}
        while frontier:
            nxt = []
            for k in frontier:
                g0, p0, r0 = seen[k]
                succ = []
                for P in gens:
                    s = B.State(g0.copy(), p0.copy(), r0)
                    s.rotate_by(P)
                    succ.append(("rotate", s))
                for L in meas:
                    for rep in range(2):
                        s = B.State(g0.copy(), p0.copy(), r0)
                        s.measure(L)
                        succ.append(("measure", s))
                for name, s in succ:
                    trans += 1
                    if not inv.check(s, name, lambda: {"N": N, "from": [O.show(a, b) for a, b in zip(g0, p0)], "r": r0, "op": name}):
                        continue
                    g, p, r = B.state(s)
                    kk = (g.tobytes(), p.tobytes(), r)
                    if kk not in seen:
                        seen[kk] = (g, p, r)
                        nxt.append(kk)
            frontier = nxt
        by_r = {}
        dens = set()
        for (g, p, r) in seen.values():
            by_r[r] = by_r.get(r, 0) + 1
            dens.add(O.state_key(g, p, r))
        rec.note("bfs.N%d" % N, {"tableaux_reached": len(seen), "by_rank": by_r, "density_distinct_states": len(dens), "transitions": trans})
        want_states = {1: 6 + 1, 2: 60 + 30 + 1}[N]
        rec.check("bfs.reach", len(dens) == want_states, ["bfs", N], True, expected="%d density-distinct states (all stabilizer states of all ranks)" % want_states,
                  observed=len(dens))
        inv.flush("bfs.N%d" % N, [hash(k) & 0xFFFFFFFFFFFF for k in seen])


# ---------------------------------------------------------------- random walks beyond N=2
def run_walk(shard, rec, B):
    rng = gen.rng_for(rec)
    st, C = B.stabilizer, B.circuit
    inv = Inv(rec, B)
    interp = env.mode() == "interp"
    keys = []
    for w in range(shard["n"]):
        N = int(rng.integers(3, 9 if not interp else 6))
        ctor = int(rng.integers(6))
        if ctor == 0:
            s = st.zero_state(N)
        elif ctor == 1:
            s = st.maximally_mixed_state(N)
        elif ctor == 2:
            s = st.ghz_state(N)
        elif ctor == 3:
            s = st.random_clifford_state(N, int(rng.integers(0, N + 1)))
        elif ctor == 4:
            gs, ps = gen.independent_commuting(rng, N, int(rng.integers(1, N + 1)))
            s = st.stabilizer_state(B.PauliList(gs, ps))
        else:
            tg, tp, r = O.random_tableau(rng, N)
            s = B.State(tg, tp, r)
        hist = [["ctor", ctor, N]]
        others = []
        for step in range(shard["len"]):
            k = int(rng.integers(14))
            g0, p0, r0 = B.state(s)
            try:
                if k == 0:
                    P = B.Pauli(gen.rand_nonid(rng, N), 2 * int(rng.integers(2)))
                    s.rotate_by(P)
                    op = "rotate"
                elif k == 1:
                    qs = gen.rand_subset(rng, N, int(rng.integers(1, N + 1)))
                    m = np.zeros(N, dtype=bool)
                    m[qs] = True
                    s.rotate_by(B.Pauli(gen.rand_string(rng, len(qs)), 2 * int(rng.integers(2))), mask=m)
                    op = "rotate.mask"
                elif k == 2:
                    s.transform_by(B.Map(*O.random_map(rng, N)))
                    op = "transform"
                elif k == 3:
                    n = int(rng.integers(1, min(N, 3) + 1))
                    qs = gen.rand_subset(rng, N, n)
                    m = np.zeros(N, dtype=bool)
                    m[qs] = True
                    s.transform_by(B.Map(*O.random_map(rng, n)), mask=m)
                    op = "transform.mask"
                elif k == 4:
                    spec = PR.rand_spec(rng, N)
                    G = PR.make_gate(B, spec, N)
                    (G.forward if rng.integers(2) else G.backward)(s)
                    op = "gate." + spec["kind"]
                elif k in (5, 6, 7):
                    og, op_ = gen.commuting_hermitian_list(rng, g0, p0, r0, int(rng.integers(1, 4)))
                    rec.event("arm." + arm_of(g0, r0, og[0]))
                    s.measure(B.PauliList(og, op_))
                    op = "measure"
                elif k == 8:
                    if r0 == 0:
                        og, op_ = gen.commuting_hermitian_list(rng, g0, p0, r0, 1)
                        s.postselect(B.Pauli(og[0], int(op_[0])), int(rng.integers(2)))
                        op = "postselect"
                    else:
                        op = "skip"
                elif k == 9:
                    old = s
                    s = s.copy()
                    others.append(old)
                    op = "copy"
                elif k == 10:
                    qs = [int(x) for x in rng.permutation(N)[:int(rng.integers(1, N + 1))]]
                    C.MeasureLayer(*qs, N=N).forward(s)
                    op = "measure_layer"
                elif k == 11:
                    c = C.Circuit(N)
                    for _ in range(int(rng.integers(1, 6))):
                        if rng.integers(3) == 0:
                            c.measure(*[int(x) for x in rng.permutation(N)[:int(rng.integers(1, N + 1))]])
                        else:
                            c.take(PR.make_gate(B, PR.rand_spec(rng, N), N))
                    c.forward(s)
                    op = "circuit"
                elif k == 12:
                    circ = [C.onsite_rcc(N), C.global_rcc(N)][int(rng.integers(2))]
                    s = list(B.lib.ClassicalShadow(s, circ).snapshots(1))[0]
                    op = "shadow"
                elif k == 13 and rng.integers(3) == 0:
                    # the encoding map of the current state (public to_map) is applied to a fresh state, which takes its place
                    m_ = s.to_map()
                    s = st.zero_state(N).set_r(int(rng.integers(0, N + 1)))
                    s.transform_by(m_)
                    op = "to_map.transform"
                elif k == 13 and rng.integers(2):
                    # read-only queries in the middle of a history must leave a valid tableau behind as well
                    s.entropy(gen.rand_subset(rng, N, int(rng.integers(1, N + 1))))
                    s.entropy(list(range(N)))
                    s.entropy(np.ones(N, dtype=bool))
                    s.expect(B.PauliList(gen.rand_list(rng, 3, N), np.zeros(3, dtype=np.int64)))
                    s.sample(2)
                    s.to_map()
                    if N - r0 <= 6:
                        s.density_matrix
                    if r0 == 0:
                        s.get_prob(rng.integers(0, 2, N))
                    op = "queries"
                else:
                    rcc = [C.onsite_rcc(N), C.global_rcc(N)] + ([C.brickwall_rcc(N, 2)] if N % 2 == 0 else [])
                    rcc[int(rng.integers(len(rcc)))].forward(s)
                    op = "rcc"
            except Exception as e:
                rec.violation("walk.%s.raises" % k, {"history": hist[-8:], "N": N}, expected="a result", observed="%s: %s" % (type(e).__name__, str(e)[:300]),
                              tags={"exception": type(e).__name__})
                break
            hist.append(op)
            okk = inv.check(s, op, lambda: {"N": N, "walk": w, "step": step, "recent": hist[-10:], "before": {"rows": [O.show(a, b) for a, b in zip(g0, p0)], "r": r0}})
            keys.append(hash((w, step, rec.seed, rec.shard)) & 0xFFFFFFFFFFFF)
            if not okk:
                break
        # earlier copies were never touched by later operations on their descendants
        for o in others[-3:]:
            inv.check(o, "copy.earlier", lambda: {"walk": w})
    inv.flush("walk", keys)


def run_wide(shard, rec, B):
    """histories on registers wider than a machine word (66..130 qubits): rotations, measurements of sparse and dense
    observables, compiled circuits of generator gates on high qubits (numpy-integer qubit labels), queries."""
    rng = gen.rng_for(rec)
    st, C = B.stabilizer, B.circuit
    inv = Inv(rec, B)
    inv.dense_every = 10 ** 9
    keys = []
    for w in range(shard["n"]):
        for N in (66, 72, 130):
            hot = sorted(set([0, 1, 31, 32, 33, 62, 63, 64, 65, N - 2, N - 1]))
            r = [0, 1, N // 2][int(rng.integers(3))]
            tg, tp, _ = O.random_tableau(rng, N, r=r, nrot=12)
            s = B.State(tg, tp, r)
            hist = []
            for step in range(shard["len"]):
                k = int(rng.integers(7))
                g0, p0, r0 = B.state(s)
                try:
                    if k == 0:
                        s.rotate_by(B.Pauli(gen.sparse_string(rng, N, 3) if rng.integers(2) else gen.rand_nonid(rng, N), 2 * int(rng.integers(2))))
                        op = "rotate"
                    elif k == 1:
                        og = np.stack([gen.sparse_string(rng, N, 2)])
                        for q in rng.choice(hot, size=2, replace=False):
                            og[0, 2 * q:2 * q + 2] = rng.integers(0, 2, 2)
                        s.measure(B.PauliList(og, np.array([2 * int(rng.integers(2))])))
                        op = "measure"
                    elif k == 2:
                        og, op_ = gen.commuting_hermitian_list(rng, g0, p0, r0, int(rng.integers(1, 4)))
                        s.measure(B.PauliList(og, op_))
                        op = "measure.list"
                    elif k == 3:
                        # compiled circuit of generator gates whose supports overlap on high qubits only
                        circ = C.identity_circuit(N)
                        for _ in range(int(rng.integers(2, 7))):
                            G = np.zeros(2 * N, dtype=np.int64)
                            for q in rng.choice(hot[4:], size=int(rng.integers(1, 4)), replace=False):
                                G[2 * q:2 * q + 2] = [(1, 0), (0, 1), (1, 1)][int(rng.integers(3))]
                            circ.take(C.clifford_rotation_gate(B.Pauli(G, 2 * int(rng.integers(2)))))
                        if rng.integers(2):
                            circ.compile(N)
                        (circ.forward if rng.integers(2) else circ.backward)(s)
                        op = "circuit.gen"
                    elif k == 4:
                        n = int(rng.integers(1, 4))
                        qs = sorted(int(x) for x in rng.choice(hot, size=n, replace=False))
                        m = np.zeros(N, dtype=bool)
                        m[qs] = True
                        s.transform_by(B.Map(*O.random_map(rng, n)), mask=m)
                        op = "transform.mask"
                    elif k == 5:
                        C.MeasureLayer(*[int(x) for x in rng.choice(hot, size=3, replace=False)], N=N).forward(s)
                        op = "measure_layer"
                    else:
                        s.entropy([int(x) for x in rng.choice(N, size=N // 2, replace=False)])
                        s.entropy(list(range(N)))
                        s.expect(B.PauliList(gen.rand_list(rng, 2, N), np.zeros(2, dtype=np.int64)))
                        s.sample(2)
                        op = "queries"
                except Exception as e:
                    rec.violation("wide.%s.raises" % k, {"history": hist[-8:], "N": N}, expected="a result", observed="%s: %s" % (type(e).__name__, str(e)[:300]))
                    break
                hist.append(op)
                okk = inv.check(s, op, lambda: {"N": N, "walk": w, "step": step, "recent": hist[-10:]})
                keys.append(hash((w, N, step, rec.seed)) & 0xFFFFFFFFFFFF)
                if not okk:
                    break
    inv.flush("walk.wide", keys)
