"""C17 copy is faithful and independent; queries have no side effects."""
import numpy as np

from .. import oracle as O
from .. import gen
from .. import programs as PR
from .. import circ_common as CC
from ..monitor import snapshot, snap_diff, shares_memory, arrays_of

RULE = ("every object kind (Pauli, list, monomial, polynomial, map, state, gate by generator / forward map / backward map / compiled, "
        "layer plain and compiled, circuit plain and compiled) x copy(): deep value snapshot equal, no shared memory, and histories in "
        "which either party is mutated afterwards (in-place rotation, measurement, raw bit flip) and the other re-observed; every query "
        "method of the property's list and every in-place method x random signed inputs: bitwise snapshots of receiver and arguments "
        "before / after; non-trivial = object carries at least one negative sign / non-zero rank / non-unit coefficient")
ASSUMPTIONS = ["values are compared after normalising dtypes (int/float -> float64, complex -> complex128)",
               "a gate may cache a derived map (forward_map from backward_map) during application: adding a cache entry is not a side effect on its definition",
               "aliasing is judged for copy(), compose() and inverse() only, as the property states"]
REQUIRED_SUBS = ["copy.eq.*", "copy.fresh.*", "copy.history.*", "query.*", "inplace.arg.*"]


def shards(tier):
    q = tier == "quick"
    out = [
        {"name": "np.interp", "mode": "interp", "backend": "np", "fn": "all", "n": 25 if q else 800},
        {"name": "torch", "mode": "jit", "backend": "torch", "fn": "all", "n": 15 if q else 500},
    ]
    for k in range(3 if q else 8):
        out.append({"name": "np.jit.%d" % k, "mode": "jit", "backend": "np", "fn": "all", "n": 40 if q else 1500})
    out.append({"name": "retained.np.jit", "mode": "jit", "backend": "np", "fn": "retained", "n": 2 if q else 30})
    out.append({"name": "retained.torch", "mode": "jit", "backend": "torch", "fn": "retained", "n": 1 if q else 6})
    out.append({"name": "forms.np.jit", "mode": "jit", "backend": "np", "fn": "all", "n": 6 if q else 300, "forms": 1})
    return out


def run(shard, rec, B):
    globals()["run_" + shard["fn"]](shard, rec, B)


def signed(obj_desc):
    return True


def make_objects(B, N, rng):
    """(kind, object) for every kind the backend has, with random signs / rank / coefficients / compiled maps."""
    out = []
    g, p = gen.rand_nonid(rng, N), int(rng.integers(4))
    out.append(("pauli", B.Pauli(g, p)))
    L = int(rng.integers(1, 6))
    out.append(("list", B.PauliList(gen.rand_list(rng, L, N), rng.integers(0, 4, L))))
    if hasattr(B.paulialg, "PauliMonomial"):
        M = B.Pauli(gen.rand_nonid(rng, N), int(rng.integers(4))).as_monomial()
        M.c = complex(gen.rand_coeffs(rng, 1)[0]) * 1.5
        out.append(("mono", M))
    out.append(("poly", B.Poly(gen.rand_list(rng, L, N), rng.integers(0, 4, L), gen.rand_coeffs(rng, L))))
    out.append(("map", B.Map(*O.random_map(rng, N))))
    tg, tp, r = O.random_tableau(rng, N)
    out.append(("state", B.State(tg, tp, r)))
    if B.name == "np":
        for kind in ("gen", "setgen", "fmap", "bmap"):
            spec = PR.rand_spec(rng, N, [kind], False)
            out.append(("gate." + kind, PR.make_gate(B, spec, N)))
        spec = PR.rand_spec(rng, N, ["fmap"], False)
        out.append(("gate.compiled", PR.make_gate(B, spec, N).compile()))
        spec = PR.rand_spec(rng, N, ["gen"], False)
        out.append(("gate.gen.compiled", PR.make_gate(B, spec, N).compile()))
        # a layer of disjoint gates, plain and compiled
        prog = PR.rand_program(rng, N, int(rng.integers(2, 8)), named=True)
        used, lay = set(), []
        for s in prog:
            if not (set(s["qubits"]) & used):
                used |= set(s["qubits"])
                lay.append(s)
        out.append(("layer", B.circuit.CliffordLayer(*[PR.make_gate(B, s, N) for s in lay])))
        out.append(("layer.compiled", B.circuit.CliffordLayer(*[PR.make_gate(B, s, N) for s in lay]).compile(N)))
        for comp in ("none", "layers", "circuit"):
            circ, _ = CC.configure(B, "CliffordCircuit", prog, N, "built", comp)
            out.append(("circuit." + comp, circ))
    return out


def mutate(B, kind, obj, rng, N):
    """change the object in place through public operations and, failing that, by flipping a raw bit."""
    done = []
    try:
        if kind in ("pauli", "list", "poly", "map", "state", "mono"):
            G = B.Pauli(gen.rand_nonid(rng, N), 2 * int(rng.integers(2)))
            obj.rotate_by(G)
            done.append("rotate_by")
        if kind == "state":
            obj.measure(B.PauliList(gen.rand_list(rng, 1, N), np.zeros(1, dtype=np.int64)))
            done.append("measure")
    except Exception:
        pass
    arrs = arrays_of(obj)
    for path, a in arrs:
        try:
            if a.ndim == 0:
                continue
            flat = a.reshape(-1)
            if flat.shape[0] == 0:
                continue
            if B.name == "torch" and hasattr(a, "untyped_storage"):
                flat[0] = (flat[0] + 1) % 2 if not a.is_complex() else flat[0] + 1
            elif a.dtype.kind == "c":
                flat[0] = flat[0] + 1.0
            else:
                flat[0] = (flat[0] + 1) % 2
            done.append("flip " + path)
        except Exception:
            pass
    return done


def run_all(shard, rec, B):
    rng = gen.rng_for(rec)
    st = B.stabilizer
    for t in range(shard["n"]):
        N = int(rng.integers(1, 6))
        # ---------------- copies
        for kind, obj in make_objects(B, N, rng):
            if not hasattr(obj, "copy"):
                continue
            if B.name == "torch" and kind not in ("state", "map"):
                continue
            s0 = snapshot(obj)
            ok, cp = rec.attempt("copy." + kind, kind, lambda: obj.copy())
            if not ok:
                continue
            s1 = snapshot(cp)
            desc = {"kind": kind, "N": N, "t": t}
            rec.check("copy.eq." + kind, not snap_diff(s0, s1) and type(cp) is type(obj), desc, True, expected="same deep snapshot and type",
                      observed={"diff": snap_diff(s0, s1)[:6], "type": type(cp).__name__})
            rec.check("copy.receiver_unchanged." + kind, not snap_diff(s0, snapshot(obj)), desc, True)
            sh = shares_memory(cp, obj)
            rec.check("copy.fresh." + kind, not sh and cp is not obj, desc, True, expected="no shared arrays", observed=sh[:4])
            # history: mutate the copy, re-observe the original; then mutate the original, re-observe a second copy
            ok2, cp2 = rec.attempt("copy." + kind, kind, lambda: obj.copy())
            how = mutate(B, kind, cp, rng, N)
            d = snap_diff(s0, snapshot(obj))
            rec.check("copy.history." + kind, not d, dict(desc, mutated="copy", how=how), True, expected="original unchanged", observed=d[:6])
            if ok2:
                how = mutate(B, kind, obj, rng, N)
                d = snap_diff(s0, snapshot(cp2))
                rec.check("copy.history." + kind, not d, dict(desc, mutated="original", how=how), True, expected="copy unchanged", observed=d[:6])
            # a copied gate/layer/circuit acts like the original
            if kind.startswith(("gate", "layer", "circuit")) and ok2:
                item = CC.inputs(B, N, rng, kinds=("list",))[0]
                a, b = CC.clone_input(B, item), CC.clone_input(B, item)
                fresh = make_same = None
        # ---------------- queries: receiver and arguments unchanged
        tg, tp, r = O.random_tableau(rng, N)
        S = B.State(tg.copy(), tp.copy(), r)
        og, op = gen.commuting_hermitian_list(rng, tg, tp, r, 3)
        Lobs = B.PauliList(og.copy(), op.copy())
        Pol = B.Poly(og.copy(), rng.integers(0, 4, len(og)), gen.rand_coeffs(rng, len(og)))
        sg, sp, sr = O.random_tableau(rng, N)
        Sig = B.State(sg.copy(), sp.copy(), sr)
        Sp = B.State(tg.copy(), tp.copy(), 0)
        mg, mp = O.random_map(rng, N)
        M1, M2 = B.Map(mg.copy(), mp.copy()), B.Map(*O.random_map(rng, N))
        bits = rng.integers(0, 2, N)
        readout = bits if B.name == "np" else B.torch.tensor(bits)
        ig, ip = gen.independent_commuting(rng, N, int(rng.integers(1, N + 1)))
        Lind = B.PauliList(ig.copy(), ip.copy())
        em = np.zeros(N, dtype=bool)
        em[gen.rand_subset(rng, N, max(1, N - int(rng.integers(0, 2))))] = True     # a region of more than half the qubits
        ent_mask = em.copy() if B.name == "np" else B.torch.tensor(em)
        ent_mask2 = em.copy() if B.name == "np" else B.torch.tensor(em)
        ent_idx = np.array(gen.rand_subset(rng, N, int(rng.integers(1, N + 1))))
        ent_neg = ent_idx.copy()
        ent_neg[::2] -= N          # labels counted from the end, in the caller's own index array
        if B.name == "torch":
            ent_neg = B.torch.tensor(ent_neg)
        queries = [
            ("expect.list", S, [Lobs], lambda: S.expect(Lobs)),
            ("expect.poly", S, [Pol], lambda: S.expect(Pol)),
            ("expect.pauli", S, [], lambda: S.expect(B.Pauli(og[0].copy(), 1))),
            ("expect.state", Sp, [Sig], lambda: Sp.expect(Sig)),
            ("entropy", S, [], lambda: S.entropy(gen.rand_subset(rng, N, int(rng.integers(1, N + 1))))),
            ("entropy.mask", S, [ent_mask], lambda: S.entropy(ent_mask)),
            ("entropy.mask.pure", Sp, [ent_mask2], lambda: Sp.entropy(ent_mask2)),
            ("entropy.array", S, [ent_idx], lambda: S.entropy(ent_idx)),
            ("entropy.array.negative", S, [ent_neg], lambda: S.entropy(ent_neg)),
            ("sample", S, [], lambda: S.sample(4)),
            ("get_prob", Sp, [readout], lambda: Sp.get_prob(readout)),
            ("density_matrix", S, [], lambda: S.density_matrix),
            ("to_map", S, [], lambda: S.to_map()),
            ("to_state", M1, [], lambda: M1.to_state(int(rng.integers(0, N + 1)))),
            ("compose", M1, [M2], lambda: M1.compose(M2)),
            ("inverse", M1, [], lambda: M1.inverse()),
            ("repr.state", S, [], lambda: repr(S)),
            ("repr.map", M1, [], lambda: repr(M1)),
            ("repr.list", Lobs, [], lambda: repr(Lobs)),
            ("repr.poly", Pol, [], lambda: repr(Pol)),
            ("tokenize", Lobs, [], lambda: Lobs.tokenize()),
            ("to_qutip", S, [], lambda: S.to_qutip() if N <= 4 else None),
            ("stabilizer_state", Lind, [], lambda: st.stabilizer_state(Lind)),
            ("stabilizers", S, [], lambda: S.stabilizers),
        ]
        if B.name == "np" or True:
            queries.append(("diagonalize.state", Sp, [], lambda: B.circuit.diagonalize(Sp)))
            Pd = B.Pauli(gen.rand_nonid(rng, N), int(rng.integers(4)))
            queries.append(("diagonalize.pauli", Pd, [], lambda: B.circuit.diagonalize(Pd, int(rng.integers(N)))))
        if B.name == "np":
            Hs = B.Poly(og.copy(), 2 * rng.integers(0, 2, len(og)), rng.normal(size=len(og)).astype(complex))
            queries.append(("SBRG", Hs, [], lambda: B.circuit.SBRG(Hs)))
            queries.append(("reduce", Pol, [], lambda: Pol.reduce()))
            queries.append(("poly.matmul", Pol, [Hs], lambda: Pol @ Hs))
            queries.append(("poly.add", Pol, [Hs], lambda: Pol + Hs))
        for name, recv, args, call in queries:
            sr0 = snapshot(recv)
            sa0 = [snapshot(a) for a in args]
            desc = {"query": name, "N": N, "t": t}
            ok, res = rec.attempt("query." + name, desc, call)
            if not ok:
                continue
            d = snap_diff(sr0, snapshot(recv))
            da = [snap_diff(x, snapshot(a)) for x, a in zip(sa0, args)]
            rec.check("query." + name, not d and not any(da), desc, True, expected="receiver and arguments unchanged",
                      observed={"receiver": d[:4], "args": [x[:4] for x in da]})
            if name in ("compose", "inverse") and res is not None:
                sh = shares_memory(res, recv) + sum((shares_memory(res, a) for a in args), [])
                rec.check("query.%s.fresh" % name, not sh, desc, True, observed=sh[:4])
        # ---------------- in-place operations never change their arguments
        G = B.Pauli(gen.rand_nonid(rng, N), 2 * int(rng.integers(2)))
        qs = gen.rand_subset(rng, N, int(rng.integers(1, N + 1)))
        mask = np.zeros(N, dtype=bool)
        mask[qs] = True
        mask_arg = mask if B.name == "np" else B.torch.tensor(mask)
        Gs = B.Pauli(gen.rand_nonid(rng, len(qs)), 2 * int(rng.integers(2)))
        Ms = B.Map(*O.random_map(rng, len(qs)))
        inplace = []
        for rk, mk in (("list", lambda: B.PauliList(og.copy(), op.copy())), ("state", lambda: B.State(tg.copy(), tp.copy(), r)),
                       ("map", lambda: B.Map(mg.copy(), mp.copy())), ("poly", lambda: B.Poly(og.copy(), op.copy(), np.ones(len(og)))),
                       ("pauli", lambda: B.Pauli(og[0].copy(), int(op[0])))):
            inplace.append(("rotate_by." + rk, mk(), [G], lambda o: o.rotate_by(G)))
            inplace.append(("rotate_by.mask." + rk, mk(), [Gs, mask_arg], lambda o: o.rotate_by(Gs, mask=mask_arg)))
            inplace.append(("transform_by." + rk, mk(), [M2], lambda o: o.transform_by(M2)))
            inplace.append(("transform_by.mask." + rk, mk(), [Ms, mask_arg], lambda o: o.transform_by(Ms, mask=mask_arg)))
        if B.name == "np":
            inplace.append(("measure", B.State(tg.copy(), tp.copy(), r), [Lobs], lambda o: o.measure(Lobs)))
            inplace.append(("measure.state", B.State(tg.copy(), tp.copy(), r), [Sig], lambda o: o.measure(Sig)))
            Pp = B.Pauli(og[0].copy(), int(op[0]))
            inplace.append(("postselect", B.State(tg.copy(), tp.copy(), 0), [Pp], lambda o: o.postselect(Pp, 0)))
            for kind in ("gen", "genq", "setgen", "fmap", "bmap", "named"):
                spec = PR.rand_spec(rng, N, [kind], True)
                gate = PR.make_gate(B, spec, N)
                inplace.append(("gate.forward." + kind, B.State(tg.copy(), tp.copy(), r), [gate], lambda o, gate=gate: gate.forward(o)))
                gate2 = PR.make_gate(B, spec, N)
                inplace.append(("gate.backward." + kind, B.PauliList(og.copy(), op.copy()), [gate2], lambda o, gate2=gate2: gate2.backward(o)))
            prog = PR.rand_program(rng, N, 5)
            for comp in ("none", "circuit"):
                circ, _ = CC.configure(B, "CliffordCircuit", prog, N, "built", comp)
                inplace.append(("circuit.forward." + comp, B.State(tg.copy(), tp.copy(), r), [circ], lambda o, circ=circ: circ.forward(o)))
        if B.name == "np":
            for nq in (1, 2):
                if nq <= N:
                    rg = B.circuit.CliffordGate(*range(nq))
                    for how in ("forward", "backward", "forward"):
                        ok, _ = rec.attempt("random_gate", [nq, how], lambda: getattr(rg, how)(B.PauliList(og.copy(), op.copy())))
                    rec.check("inplace.arg.random_gate", rg.generator is None and rg.forward_map is None and rg.backward_map is None, {"n": nq, "N": N}, True,
                              expected="a gate without generator and maps stays a random gate", observed=[rg.forward_map is not None, rg.backward_map is not None])
                    rc = rg.copy()
                    rec.check("copy.eq.random_gate", rc.generator is None and rc.forward_map is None and rc.backward_map is None and rc.qubits == rg.qubits, {"n": nq}, True)
        if B.name == "np" and hasattr(B.circuit, "Circuit") and N >= 2:
            # the record a caller hands to Circuit.backward stays the caller's: later runs of the same circuit (which append to the
            # circuit's own record) leave it as it was
            prog2 = PR.rand_program(rng, N, 3, kinds=["setgen", "fmap"], named=False)
            cm = B.circuit.Circuit(N)
            mq = sorted(int(q) for q in rng.choice(N, size=int(rng.integers(1, N)), replace=False))
            try:
                for s_ in prog2[:2]:
                    cm.take(PR.make_gate(B, s_, N))
                cm.measure(*mq)
                cm.take(PR.make_gate(B, prog2[2], N))
                S0 = B.State(tg.copy(), tp.copy(), 0)
                cm.forward(S0)
                mine = [int(x) for x in cm.measure_result[-len(mq):]]
                given = list(mine)
                cm.backward(S0, measure_result=given)      # the trajectory just recorded, undone on its own final state: always possible
                for _ in range(2):
                    cm.forward(B.State(tg.copy(), tp.copy(), 0))
                rec.check("inplace.arg.circuit.backward.record", [int(x) for x in given] == mine, {"N": N, "measured": mq}, True,
                          expected=mine, observed=[int(x) for x in given])
            except Exception as e:
                rec.refusal("circuit.backward.record:%s" % type(e).__name__)
        for name, recv, args, call in inplace:
            sa0 = [gate_def_snapshot(a) for a in args]
            r0 = snapshot(recv)
            desc = {"op": name, "N": N, "t": t}
            ok, _ = rec.attempt("inplace.arg." + name, desc, lambda: call(recv))
            if not ok:
                continue
            da = [defs_changed(x, gate_def_snapshot(a)) for x, a in zip(sa0, args)]
            rec.check("inplace.arg." + name, not any(da), desc, True, expected="arguments unchanged", observed=[x[:4] for x in da])


def gate_def_snapshot(a):
    return snapshot(a)


def defs_changed(before, after):
    """paths whose value changed or disappeared; newly added cache entries (map derived from the other map) are not changes."""
    return [k for k in before if before[k] != after.get(k) and not (before[k] == ("scalar", "None") and k.endswith(("forward_map", "backward_map")))]


def run_retained(shard, rec, B):
    """results handed out by a call are re-observed after the SAME call has been made on another object of the same size
    (small and wide registers): no two results, and no result and a later receiver, may share storage."""
    rng = gen.rng_for(rec)
    for t in range(shard["n"]):
        for N in ([2, 5, 16, 31, 32, 33, 40, 64, 65] if B.name == "np" else [2, 5, 32, 33]):
            m1, m2 = O.random_map(rng, N, nrot=N + 2), O.random_map(rng, N, nrot=N + 2)
            t1, t2 = O.random_tableau(rng, N, nrot=N), O.random_tableau(rng, N, nrot=N)
            M1, M2 = B.Map(m1[0].copy(), m1[1].copy()), B.Map(m2[0].copy(), m2[1].copy())
            S1, S2 = B.State(t1[0].copy(), t1[1].copy(), t1[2]), B.State(t2[0].copy(), t2[1].copy(), t2[2])
            calls = [
                ("inverse", lambda: M1.inverse(), lambda: M2.inverse()),
                ("compose", lambda: M1.compose(M2), lambda: M2.compose(M1)),
                ("map.copy", lambda: M1.copy(), lambda: M2.copy()),
                ("to_state", lambda: M1.to_state(), lambda: M2.to_state(1)),
                ("to_map", lambda: S1.to_map(), lambda: S2.to_map()),
                ("state.copy", lambda: S1.copy(), lambda: S2.copy()),
                ("identity_map", lambda: B.stabilizer.identity_map(N), lambda: B.stabilizer.identity_map(N)),
                ("zero_state", lambda: B.stabilizer.zero_state(N), lambda: B.stabilizer.zero_state(N)),
            ]
            if B.name == "np":
                g1 = B.circuit.CliffordGate(*range(N))
                g1.set_forward_map(B.Map(m1[0].copy(), m1[1].copy()))
                g2 = B.circuit.CliffordGate(*range(N))
                g2.set_forward_map(B.Map(m2[0].copy(), m2[1].copy()))
                calls.append(("gate.compile", lambda: g1.compile().backward_map, lambda: g2.compile().backward_map))
            for name, c1, c2 in calls:
                ok, r1 = rec.attempt("retained." + name, [name, N], c1)
                if not ok:
                    continue
                s1 = snapshot(r1)
                ok, r2 = rec.attempt("retained." + name, [name, N], c2)
                if not ok:
                    continue
                d = snap_diff(s1, snapshot(r1))
                sh = shares_memory(r1, r2)
                rec.check("retained." + name, not d and not sh, {"call": name, "N": N}, True, expected="first result unchanged by the second call, no shared storage",
                          observed={"changed": d[:4], "shared": sh[:4]})
                if name in ("identity_map", "zero_state"):   # changing one result must not change what the next call returns
                    try:
                        r1.gs[0, 0] = 1 - r1.gs[0, 0]
                    except Exception:
                        pass
                    ok, r3 = rec.attempt("retained." + name, [name, N], c2)
                    if ok:
                        rec.check("retained." + name, not snap_diff(snapshot(r2), snapshot(r3)), {"call": name, "N": N, "after": "mutating an earlier result"}, True)
