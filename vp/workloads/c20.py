"""C20 Operator descriptions, printing, tokens and indexing round-trip."""
import itertools

import numpy as np

from .. import oracle as O
from .. import gen

RULE = ("every Pauli string (N<=3 quick, N<=4 thorough) x 4 phases x every accepted description (6 string prefixes, "
        "code arrays with phase codes 4-7 leading or trailing, dict+N, repr, tokens) parsed by the real constructors and "
        "compared with the oracle's own (string -> (g,p)) reading; random lists N<=12, L<=20 with random index "
        "expressions; a case is non-trivial when the string is not the identity or the phase is not +1")
ASSUMPTIONS = ["oracle reads letters with its own table; phases mod 4", "index semantics = numpy selection on (gs, ps)"]
REQUIRED_SUBS = ["parse.str.*", "parse.codes.*", "parse.str.infix", "parse.mixed", "parse.dict", "repr.roundtrip", "token.roundtrip", "list.roundtrip",
                 "attr.*", "index.int", "index.slice", "index.mask", "index.array", "neg", "scalar.*"]

PREFIX = {'': 0, '+': 0, '-': 2, 'i': 1, '-i': 3, '+i': 1}
CODE = {0: 4, 2: 5, 1: 6, 3: 7}


def shards(tier):
    q = tier == "quick"
    out = [
        {"name": "exh.np.interp", "mode": "interp", "backend": "np", "fn": "exh", "Ns": [1, 2, 3] if q else [1, 2, 3, 4]},
        {"name": "rand.np.jit", "mode": "jit", "backend": "np", "fn": "rand", "n": 300 if q else 20000},
        {"name": "exh.np.jit", "mode": "jit", "backend": "np", "fn": "exh", "Ns": [1, 2]},
        {"name": "exh.torch", "mode": "jit", "backend": "torch", "fn": "exh", "Ns": [1, 2] if q else [1, 2, 3]},
        {"name": "rand.torch", "mode": "jit", "backend": "torch", "fn": "rand", "n": 150 if q else 5000},
    ]
    if not q:
        out.append({"name": "exh5.np.jit", "mode": "jit", "backend": "np", "fn": "exh", "Ns": [5]})
    return out


def run(shard, rec, B):
    globals()["run_" + shard["fn"]](shard, rec, B)


def _same(B, P, g, p):
    try:
        lg, lp = B.gp(P)
    except Exception:
        return False, None
    return (lg.shape == g.shape and np.array_equal(lg, g) and lp == p % 4), O.show(lg, lp) if lg.shape == g.shape else "shape %r" % (lg.shape,)


def run_exh(shard, rec, B):
    lib = B.paulialg
    for N in shard["Ns"]:
        S = O.all_strings(N)
        rec.space("strings x phases x formats N=%d" % N, len(S) * 4)
        for g in S:
            s = O.g2s(g)
            lets = O.letters(g)
            for p in range(4):
                nt = bool(g.any()) or p != 0
                # --- string prefixes
                for pre, pp in PREFIX.items():
                    if pp != p:
                        continue
                    txt = pre + s
                    ok, P = rec.attempt("parse.str", txt, lambda: lib.pauli(txt))
                    if ok:
                        good, obs = _same(B, P, g, p)
                        rec.check("parse.str.%s" % (pre or "none"), good, txt, nt, expected=O.show(g, p), observed=obs)
                    # the same markers written between the letters (the repository's own tests write '-XiXY'), in one piece
                    # or with the sign first and the i further on
                    if pre:
                        for k in range(1, N + 1):
                            forms = [s[:k] + pre + s[k:]]
                            if len(pre) == 2:
                                forms += [s[:j] + pre[0] + s[j:k] + pre[1] + s[k:] for j in range(0, k)]
                            for txt2 in forms:
                                ok, P = rec.attempt("parse.str.infix", txt2, lambda: lib.pauli(txt2))
                                if ok:
                                    good, obs = _same(B, P, g, p)
                                    rec.check("parse.str.infix", good, txt2, nt, expected=O.show(g, p), observed=obs)
                # --- code arrays: list, tuple, ndarray; phase code leading, trailing, absent (p=0)
                variants = []
                codes = [int(k) for k in lets]
                if p == 0:
                    variants.append(("bare", codes))
                variants.append(("lead", [CODE[p]] + codes))
                variants.append(("trail", codes + [CODE[p]]))
                for k in range(1, N):
                    variants.append(("infix", codes[:k] + [CODE[p]] + codes[k:]))
                # one sequence mixing letters with codes (each entry is read on its own): marker as characters or as a code
                for par in (0, 1):
                    body = [(s[i] if (i + par) % 2 == 0 else codes[i]) for i in range(N)]
                    for mk, lead in (("chars", list([x for x, y in PREFIX.items() if y == p][-1])), ("code", [CODE[p]])):
                        for kind, obj in (("list", lead + body), ("tuple", tuple(body + lead) if mk == "code" else tuple(lead + body))):
                            ok, P = rec.attempt("parse.mixed", [mk, kind, repr(obj)], lambda: lib.pauli(obj))
                            if ok:
                                good, obs = _same(B, P, g, p)
                                rec.check("parse.mixed", good, [repr(obj)], nt, expected=O.show(g, p), observed=obs)
                for nm, cs in variants:
                    for kind, obj in (("list", list(cs)), ("tuple", tuple(cs)), ("ndarray", np.array(cs))):
                        ok, P = rec.attempt("parse.codes", [nm, kind, cs], lambda: lib.pauli(obj))
                        if ok:
                            good, obs = _same(B, P, g, p)
                            rec.check("parse.codes.%s.%s" % (nm, kind), good, [cs], nt, expected=O.show(g, p), observed=obs)
                        # the qubit count given alongside a sequence (what paulis(..., N=N) does for every element) changes nothing
                        ok, P = rec.attempt("parse.codes.withN", [nm, kind, cs, N], lambda: lib.pauli(obj, N))
                        if ok:
                            good, obs = _same(B, P, g, p)
                            rec.check("parse.codes.withN", good, [nm, kind, cs, N], nt, expected=O.show(g, p), observed=obs)
                for pre, pp in PREFIX.items():
                    if pp == p:
                        for obj in (pre + s, list(pre + s)):
                            ok, P = rec.attempt("parse.str.withN", [pre + s, N], lambda: lib.pauli(obj, N=N))
                            if ok:
                                good, obs = _same(B, P, g, p)
                                rec.check("parse.str.withN", good, [pre + s, type(obj).__name__, N], nt, expected=O.show(g, p), observed=obs)
                if B.name == "torch":
                    for nm, cs in variants:
                        t = B.torch.tensor(cs)
                        ok, P = rec.attempt("parse.codes.tensor", [nm, cs], lambda: lib.pauli(t))
                        if ok:
                            good, obs = _same(B, P, g, p)
                            rec.check("parse.codes.%s.tensor" % nm, good, [cs], nt, expected=O.show(g, p), observed=obs)
                # --- dict + N (only non-identity letters listed; ints and letters); dict carries no phase
                if p == 0:
                    d1 = {int(i): int(lets[i]) for i in range(N) if lets[i]}
                    d2 = {int(i): 'IXYZ'[lets[i]] for i in range(N) if lets[i]}
                    # the same dictionary filled in descending and in shuffled key order (a dict keeps insertion order)
                    ks = [int(i) for i in range(N) if lets[i]]
                    d3 = {i: 'IXYZ'[lets[i]] for i in reversed(ks)}
                    d4 = {i: int(lets[i]) for i in sorted(ks, key=lambda i: (i * 7 + 3) % 5)}
                    for d in (d1, d2, d3, d4):
                        ok, P = rec.attempt("parse.dict", [d, N], lambda: lib.pauli(d, N))
                        if ok:
                            good, obs = _same(B, P, g, 0)
                            rec.check("parse.dict", good, [sorted(d.items()), N], nt, expected=O.show(g, 0), observed=obs)
                # --- an existing Pauli passes through
                P0 = B.Pauli(g, p)
                rec.check("parse.passthrough", lib.pauli(P0) is P0, [s, p], nt)
                # --- repr -> parse
                ok, txt = rec.attempt("repr", [s, p], lambda: repr(P0))
                if ok:
                    want = [' +', '+i', ' -', '-i'][p] + s
                    rec.check("repr.text", txt == want, [s, p], nt, expected=want, observed=txt)
                    ok, P = rec.attempt("repr.roundtrip", txt, lambda: lib.pauli(txt))
                    if ok:
                        good, obs = _same(B, P, g, p)
                        rec.check("repr.roundtrip", good, [s, p], nt, expected=O.show(g, p), observed=obs)
                # --- tokenize -> parse
                ok, T = rec.attempt("token", [s, p], lambda: P0.tokenize())
                if ok:
                    tn = B.np(T)
                    want = np.array([[1, 2, 3, 0][0] if False else {0: 0, 1: 1, 2: 2, 3: 3}[int(k)] for k in lets] + [CODE[p]])
                    rec.check("token.value", tn.shape == (1, N + 1) and np.array_equal(tn[0], want), [s, p], nt,
                              expected=want, observed=tn)
                    ok, P = rec.attempt("token.roundtrip", [s, p], lambda: lib.pauli(T[0]))
                    if ok:
                        good, obs = _same(B, P, g, p)
                        rec.check("token.roundtrip", good, [s, p], nt, expected=O.show(g, p), observed=obs)
                # --- attributes, negation, scalars
                rec.check("attr.N", P0.N == N, [s, p], nt, expected=N, observed=P0.N)
                ok, w = rec.attempt("attr.weight", [s, p], lambda: int(P0.weight()))
                if ok:
                    rec.check("attr.weight", w == int((lets != 0).sum()), [s, p], nt, expected=int((lets != 0).sum()), observed=w)
                ok, Q = rec.attempt("neg", [s, p], lambda: -P0)
                if ok:
                    good, obs = _same(B, Q, g, p + 2)
                    rec.check("neg", good, [s, p], nt, expected=O.show(g, p + 2), observed=obs)
                for c, dp in ((1, 0), (-1, 2), (1j, 1), (-1j, 3), (np.float64(-1.0), 2), (np.complex128(1j), 1), (np.int64(-1), 2), (np.complex64(-1j), 3), (-1.0 + 0j, 2)):
                    ok, Q = rec.attempt("scalar", [s, p, str(c)], lambda: c * P0)
                    if ok:
                        good, obs = _same(B, Q, g, p + dp)
                        rec.check("scalar.%s" % str(c), good, [s, p], nt, expected=O.show(g, p + dp), observed=obs)
                # receiver untouched by all of the above
                good, obs = _same(B, P0, g, p)
                rec.check("query.pure", good, [s, p], nt, expected=O.show(g, p), observed=obs)


def _index_exprs(rng, L, negstep=True):
    out = [("int", int(rng.integers(0, L))), ("int", -int(rng.integers(1, L + 1))),
           ("int", np.int64(rng.integers(0, L)))]
    # a numpy integer scalar of any width is an integer (what iterating over an index array of that dtype yields)
    for dt in (np.int8, np.uint8, np.int16, np.uint16, np.int32, np.uint32, np.uint64, np.intp):
        if rng.integers(2):
            out.append(("int", dt(rng.integers(0, min(L, 127)))))
    if rng.integers(2):
        out.append(("int", np.int32(-int(rng.integers(1, L + 1)))))
    a, b = sorted(int(x) for x in rng.integers(0, L + 1, 2))
    out += [("slice", slice(a, b)), ("slice", slice(None, None, 2)), ("slice", slice(a, None)), ("slice", slice(None, b, 3))]
    if negstep:  # torch tensors refuse negative steps (PyTorch limitation, not a property of the port)
        out += [("slice", slice(None, None, -1)), ("slice", slice(b, a, -1))]
    out.append(("mask", rng.integers(0, 2, L).astype(bool)))
    out.append(("mask", rng.integers(0, 2, L).astype(bool).tolist()))     # a plain python list of bools is a mask too
    out.append(("array", [int(x) for x in rng.integers(0, L, 3)]))
    out.append(("array", rng.integers(0, L, int(rng.integers(0, L + 3)))))
    out.append(("array", rng.permutation(L)))
    return out


def run_rand(shard, rec, B):
    lib = B.paulialg
    rng = gen.rng_for(rec)
    for N in (1, 3):    # a zero-length list is a list of length zero
        E = B.PauliList(np.zeros((0, 2 * N), dtype=np.int64), np.zeros(0, dtype=np.int64))
        ok, R = rec.attempt("empty.list", N, lambda: (len(E), E.L, E.N, B.np(E.tokenize()).shape, B.np(E.weight()).shape, repr(E), B.gsps(-E)[1].shape, B.gsps(E[0:0])[0].shape))
        if ok:
            rec.check("empty.list", R == (0, 0, N, (0, N + 1), (0,), "", (0,), (0, 2 * N)), ["empty", N], False, observed=repr(R))
    # descriptions that cannot be read are refused, not guessed
    for what, call, exc in (("dict without N", lambda: lib.pauli({0: 'X'}), ValueError), ("float", lambda: lib.pauli(1.5), TypeError),
                            ("None", lambda: lib.pauli(None), TypeError), ("set", lambda: lib.pauli({1, 2}), TypeError),
                            ("dict beyond N", lambda: lib.pauli({3: 'X'}, 2), (AssertionError, ValueError, IndexError))):
        try:
            r_ = call()
            got = "accepted: %r" % (r_,)
        except exc:
            got = "refused"
            rec.refusal("parse.reject:" + what)
        except Exception as e:
            got = type(e).__name__
        rec.check("parse.reject", got == "refused", what, True, expected="refused", observed=got)
    # selection from a polynomial keeps each term's coefficient with its string and phase
    for t in range(20):
        N, L = int(rng.integers(1, 6)), int(rng.integers(2, 9))
        gs, ps, cs = gen.rand_list(rng, L, N), rng.integers(0, 4, L), gen.rand_coeffs(rng, L) + 0.25
        H = B.Poly(gs.copy(), ps.copy(), cs.copy())
        for kind, ix in _index_exprs(rng, L, negstep=(B.name == 'np')):
            lab = [[O.show(g, p) for g, p in zip(gs, ps)], kind, repr(ix)]
            ok, R = rec.attempt("index.poly." + kind, lab, lambda: H[ix])
            if not ok:
                continue
            try:
                if kind == "int" and B.name == "np":
                    g1, p1 = B.gp(R)
                    good = np.array_equal(g1, gs[ix]) and p1 == ps[ix] % 4 and abs(complex(R.c) - cs[ix]) < 1e-6
                else:
                    ixn = np.asarray(ix) if isinstance(ix, list) else ix
                    qg, qp = B.gsps(R)
                    qg, qc = qg.reshape(-1, 2 * N), np.atleast_1d(B.cnp(R.cs))
                    eg, ep, ec = gs[ixn].reshape(-1, 2 * N), np.atleast_1d(ps[ixn] % 4), np.atleast_1d(cs[ixn])
                    good = qg.shape == eg.shape and np.array_equal(qg, eg) and np.array_equal(np.atleast_1d(qp), ep) and np.allclose(qc, ec, atol=1e-6)
            except Exception as e:
                good = False
            rec.check("index.poly." + kind, good, lab, True)
    ok, Q = rec.attempt("parse.list.tuple", "tuple", lambda: lib.paulis(("XYZ", "-ZZI", "iIII")))
    if ok:
        qg, qp = B.gsps(Q)
        rec.check("parse.list.tuple", np.array_equal(qg, np.stack([O.s2g("XYZ"), O.s2g("ZZI"), O.s2g("III")])) and list(qp) == [0, 2, 1], "tuple", True)
    for t in range(shard["n"]):
        N = int(rng.integers(1, 13))
        L = int(rng.integers(1, 21))
        if t % 10 == 9:     # wide registers and long lists (word / byte thresholds)
            N = gen.BIG_NS[(t // 10) % len(gen.BIG_NS)]
            L = [3, gen.BIG_LS[(t // 10) % len(gen.BIG_LS)]][(t // 10) % 2] if B.name == "np" else 3
        gs = gen.rand_list(rng, L, N)
        ps = rng.integers(0, 4, L)
        PL = B.PauliList(gs, ps)
        case = [O.show(g, p) for g, p in zip(gs, ps)]
        rec.check("attr.L", PL.L == L and len(PL) == L and PL.N == N, case, True, expected=[L, N], observed=[PL.L, len(PL), PL.N])
        ok, w = rec.attempt("attr.weight.list", case, lambda: B.np(PL.weight()))
        if ok:
            rec.check("attr.weight.list", np.array_equal(w, (O.letters(gs) != 0).sum(-1)), case, True)
        # construction of a list from many descriptions
        descr = []
        for g, p in zip(gs, ps):
            k = int(rng.integers(0, 4))
            s = O.g2s(g)
            pre = [x for x, y in PREFIX.items() if y == p]
            if k == 0:
                descr.append(pre[int(rng.integers(len(pre)))] + s)
            elif k == 1:
                descr.append([CODE[int(p)]] + [int(x) for x in O.letters(g)])
            elif k == 2:
                descr.append(np.array([int(x) for x in O.letters(g)] + [CODE[int(p)]]))
            else:
                descr.append(B.Pauli(g, p))
        for form, call in (("args", lambda: lib.paulis(*descr)), ("list", lambda: lib.paulis(list(descr))),
                           ("gen", lambda: lib.paulis(d for d in descr)), ("withN", lambda: lib.paulis(list(descr), N=N))):
            if form == "args" and L == 1:
                continue
            ok, Q = rec.attempt("parse.list." + form, case, call)
            if ok:
                qg, qp = B.gsps(Q)
                rec.check("parse.list." + form, np.array_equal(qg, gs) and np.array_equal(qp, ps % 4), case, True,
                          expected=case, observed=[O.show(g, p) for g, p in zip(qg, qp)])
        # a list handed to paulis() is that list
        ok, Q = rec.attempt("parse.list.passthrough", case, lambda: lib.paulis(PL))
        if ok:
            qg, qp = B.gsps(Q)
            rec.check("parse.list.passthrough", isinstance(Q, lib.PauliList) and len(Q) == L and np.array_equal(qg, gs) and np.array_equal(qp, ps % 4), case, True)
        # tokens -> list ; repr -> list
        ok, T = rec.attempt("list.tokenize", case, lambda: PL.tokenize())
        if ok:
            ok, Q = rec.attempt("list.roundtrip", case, lambda: lib.paulis(T))
            if ok:
                qg, qp = B.gsps(Q)
                rec.check("list.roundtrip", np.array_equal(qg, gs) and np.array_equal(qp, ps % 4), case, True,
                          expected=case, observed=[O.show(g, p) for g, p in zip(qg, qp)])
        ok, txt = rec.attempt("list.repr", case, lambda: repr(PL))
        if ok:
            lines = txt.split("\n")
            ok, Q = rec.attempt("list.repr.roundtrip", case, lambda: lib.paulis(lines))
            if ok:
                qg, qp = B.gsps(Q)
                rec.check("list.repr.roundtrip", np.array_equal(qg, gs) and np.array_equal(qp, ps % 4), case, True)
        # indexing
        for kind, ix in _index_exprs(rng, L, negstep=(B.name == 'np')):
            lab = [case, kind, repr(ix)]
            ok, R = rec.attempt("index." + kind, lab, lambda: PL[ix])
            if not ok:
                continue
            if kind == "int":
                good, obs = _same(B, R, gs[ix], int(ps[ix]))
                rec.check("index.int", good and isinstance(R, lib.Pauli), lab, True, expected=O.show(gs[ix], ps[ix]), observed=obs)
            else:
                try:
                    qg, qp = B.gsps(R)
                    ixn = np.asarray(ix) if isinstance(ix, list) else ix
                    eg, ep = gs[ixn], ps[ixn] % 4
                    good = qg.shape == eg.shape and np.array_equal(qg, eg) and np.array_equal(qp, ep)
                except Exception as e:
                    good = False
                rec.check("index." + kind, good and isinstance(R, lib.PauliList), lab, True)
        # walking the list: nested and simultaneous walks of the SAME list object see every row, each time
        if L <= 8:
            ok, pairs = rec.attempt("iterate", case, lambda: [(B.gp(a), B.gp(b)) for a in PL for b in PL])
            if ok:
                want = [((i, j)) for i in range(L) for j in range(L)]
                good = len(pairs) == L * L and all(np.array_equal(pairs[k][0][0], gs[i]) and pairs[k][0][1] == ps[i] % 4 and
                                                  np.array_equal(pairs[k][1][0], gs[j]) and pairs[k][1][1] == ps[j] % 4 for k, (i, j) in enumerate(want))
                rec.check("iterate.nested", good, case, L > 1, expected=L * L, observed=len(pairs))
            ok, z = rec.attempt("iterate", case, lambda: [(B.gp(a), B.gp(b), repr(PL) is None) for a, b in zip(PL, 1 * PL)])
            if ok:
                good = len(z) == L and all(np.array_equal(z[i][0][0], gs[i]) and np.array_equal(z[i][1][0], gs[i]) and z[i][0][1] == z[i][1][1] == ps[i] % 4 for i in range(len(z)))
                rec.check("iterate.zip", good, case, L > 1, expected=L, observed=len(z))
        # list negation and scalars
        for c, dp in ((None, 2), (1, 0), (-1, 2), (1j, 1), (-1j, 3), (np.float64(-1.0), 2), (np.complex128(1j), 1), (np.int64(1), 0), (np.complex64(-1j), 3)):
            ok, R = rec.attempt("scalar.list", [case, str(c)], (lambda: -PL) if c is None else (lambda: c * PL))
            if ok:
                qg, qp = B.gsps(R)
                rec.check("scalar.list.%s" % ("neg" if c is None else str(c)),
                          np.array_equal(qg, gs) and np.array_equal(qp, (ps + dp) % 4), [case], True)
        qg, qp = B.gsps(PL)
        rec.check("query.pure.list", np.array_equal(qg, gs) and np.array_equal(qp, ps % 4), case, True)
