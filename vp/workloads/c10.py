"""C10 backward is the exact inverse of forward."""
import numpy as np

from .. import oracle as O
from .. import gen
from .. import programs as PR
from .. import circ_common as CC

RULE = ("every named gate and all 24 C(k) at every placement for N<=2 on all operators x 4 phases and on every valid N<=2 "
        "tableau stride; random programs as in C09 in all 18 configurations, both orders (backward after forward, forward "
        "after backward) on inputs of every kind with arbitrary phases and ranks; single gates of every specification kind "
        "and directly built layers, compiled and not; non-trivial = the gate/circuit is not the identity on the input")
ASSUMPTIONS = ["inputs compared bitwise on (gs, ps mod 4, r, cs)", "circuits are recompiled after compose"]
REQUIRED_SUBS = ["bf.CliffordCircuit.built.none", "bf.CliffordCircuit.*.circuit", "fb.CliffordCircuit.*.circuit", "bf.CliffordCircuit.*.layers",
                 "bf.Circuit.*", "gate.gen", "gate.fmap", "gate.bmap", "gate.named", "layer.*", "named.*",
                 "gate.live.fmap", "gate.live.bmap", "gate.live.regen.*", "gate.live.value"]


def shards(tier):
    q = tier == "quick"
    out = [
        {"name": "named.np.interp", "mode": "interp", "backend": "np", "fn": "named"},
        {"name": "named.np.jit", "mode": "jit", "backend": "np", "fn": "named"},
        {"name": "prog.np.interp", "mode": "interp", "backend": "np", "fn": "progs", "n": 40 if q else 1200},
        {"name": "prog.torch", "mode": "jit", "backend": "torch", "fn": "progs", "n": 20 if q else 600},
    ]
    for k in range(4 if q else 10):
        out.append({"name": "prog.np.jit.%d" % k, "mode": "jit", "backend": "np", "fn": "progs", "n": 50 if q else 1200})
    out.append({"name": "forms.np.jit", "mode": "jit", "backend": "np", "fn": "progs", "n": 20 if q else 1000, "forms": 1})
    out.append({"name": "live.np.jit", "mode": "jit", "backend": "np", "fn": "live", "n": 150 if q else 6000})
    out.append({"name": "live.np.interp", "mode": "interp", "backend": "np", "fn": "live", "n": 40 if q else 1000})
    out.append({"name": "live.torch", "mode": "jit", "backend": "torch", "fn": "live", "n": 40 if q else 1500})
    out.append({"name": "big.np.jit", "mode": "jit", "backend": "np", "fn": "big", "n": 2 if q else 40})
    out.append({"name": "big.torch", "mode": "jit", "backend": "torch", "fn": "big", "n": 1 if q else 8})
    return out


def run(shard, rec, B):
    globals()["run_" + shard["fn"]](shard, rec, B)


def roundtrip(rec, B, sub, thing, item, desc, nt, layer_N=None):
    if sub.startswith(("CliffordCircuit.copy_", "Circuit.copy_")):
        pass
    """both orders on one input; `thing` has forward/backward."""
    for order in ("bf", "fb"):
        obj = CC.clone_input(B, item)
        first, second = (thing.forward, thing.backward) if order == "bf" else (thing.backward, thing.forward)
        name = sub if sub.startswith(("gate", "layer", "named", "stale")) else "%s.%s" % (order, sub)
        ok, _ = rec.attempt(name, desc, lambda: second(first(obj)))
        if ok:
            got = CC.read(B, item[0], obj)
            ref = (item[2], item[3], item[4])
            rec.check(name, CC.same(got, ref), dict(desc, order=order, kind=item[0], input=CC.show_rows(ref)), nt,
                      expected=CC.show_rows(ref), observed=CC.show_rows(got))


def run_named(shard, rec, B):
    rng = gen.rng_for(rec)
    C = B.circuit
    for N in (1, 2):
        S = O.all_strings(N)
        gs, ps = np.repeat(S, 4, 0), np.tile(np.arange(4), len(S))
        items = [("list", None, gs, ps, None)]
        maps = list(O.all_maps(N))
        for k in range(0, len(maps), 1 if N == 1 else 97):
            tg, tp, _ = O.tableau_from_map(*maps[k])
            for r in range(N + 1):
                items.append(("state", None, tg, tp, r))
        specs = [{"kind": "named", "name": nm, "qubits": [q]} for nm in ("H", "S", "X", "Y", "Z") for q in range(N)]
        specs += [{"kind": "C", "index": k, "qubits": [q]} for k in range(24) for q in range(N)]
        if N == 2:
            specs += [{"kind": "named", "name": "CNOT", "qubits": [0, 1]}, {"kind": "named", "name": "CNOT", "qubits": [1, 0]}]
        rec.space("named and indexed gates at every placement N=%d x all operators x tableau stride" % N, len(specs) * len(items))
        for s in specs:
            for item in items:
                g = PR.make_gate(B, s, N)
                roundtrip(rec, B, "named.%s" % (s.get("name") or "C"), g, item, {"gate": PR.describe(s), "N": N}, True)


def run_progs(shard, rec, B):
    rng = gen.rng_for(rec)
    classes = ["CliffordCircuit"] + (["Circuit"] if hasattr(B.circuit, "Circuit") else [])
    named = B.name == "np"
    C = B.circuit
    for t in range(shard["n"]):
        N = int(rng.integers(1, 7)) if B.name == "np" else int(rng.integers(1, 5))
        length = int(rng.integers(1, 31)) if t % 3 else int(rng.integers(1, 6))
        prog = PR.rand_program(rng, N, length, named=named)
        desc = {"N": N, "program": [PR.describe(s) for s in prog][:30]}
        ins = CC.inputs(B, N, rng)
        nt = True
        # single gates of every kind, fresh and compiled
        for s in prog[:6]:
            for compiled in (False, True):
                g = PR.make_gate(B, s, N)
                if compiled:
                    ok, _ = rec.attempt("gate.compile", PR.describe(s), lambda: g.compile())
                    if not ok:
                        continue
                kind = {"genq": "gen", "setgen": "gen", "C": "named"}.get(s["kind"], s["kind"])
                item = ins[int(rng.integers(len(ins)))]
                roundtrip(rec, B, "gate.%s" % kind, g, item, {"gate": PR.describe(s), "N": N, "compiled": compiled}, nt)
                # the used gate (derived maps cached by now) is copied and the copy must round-trip too
                ok, g2 = rec.attempt("gate.copy_after_use", PR.describe(s), lambda: g.copy())
                if ok:
                    roundtrip(rec, B, "gate.copy_after_use", g2, item, {"gate": PR.describe(s), "N": N, "compiled": compiled}, nt)
        # a layer built directly from pairwise disjoint gates
        used, lay = set(), []
        for s in prog:
            if not (set(s["qubits"]) & used):
                used |= set(s["qubits"])
                lay.append(s)
        for compiled in (False, True):
            L = C.CliffordLayer(*[PR.make_gate(B, s, N) for s in lay])
            if compiled:
                ok, _ = rec.attempt("layer.compile", desc, lambda: L.compile(N))
                if not ok:
                    continue
            for item in ins[:3]:
                roundtrip(rec, B, "layer.%s" % ("compiled" if compiled else "plain"), L, item,
                          {"N": N, "layer": [PR.describe(s) for s in lay]}, nt)
            ok, L2 = rec.attempt("layer.copy_after_use", desc, lambda: L.copy())
            if ok:
                L2.forward_map = L2.backward_map = None   # use the copied gates themselves
                roundtrip(rec, B, "layer.copy_after_use", L2, ins[0], {"N": N, "layer": [PR.describe(s) for s in lay]}, nt)
        # compile, then extend WITHOUT recompiling (the documented stale case): whatever forward does now, backward must undo it
        if len(prog) >= 2 and B.name == "np":
            h = len(prog) // 2
            for how in ("compose", "take"):
                c1, _ = CC.build(B, "CliffordCircuit", prog[:h], N)
                c1.compile(N)
                if how == "compose":
                    c2, _ = CC.build(B, "CliffordCircuit", prog[h:], N)
                    ok, _ = rec.attempt("stale.compose", desc, lambda: c1.compose(c2))
                else:
                    ok, _ = rec.attempt("stale.take", desc, lambda: [c1.take(PR.make_gate(B, s, N)) for s in prog[h:]])
                if ok:
                    for item in ins[:3]:
                        roundtrip(rec, B, "stale.%s" % how, c1, item, dict(desc, how=how), nt)
        # circuits in all configurations
        for cls in classes:
            for variant in CC.VARIANTS:
                for comp in CC.COMPILE:
                    sub = "%s.%s.%s" % (cls, variant, comp)
                    ok, res = rec.attempt("cfg." + sub, desc, lambda: CC.configure(B, cls, prog, N, variant, comp))
                    if not ok or res[0] is None:
                        continue
                    circ = res[0]
                    for item in ins:
                        roundtrip(rec, B, sub, circ, item, dict(desc, config=sub), nt)
                    # every layer of the (compiled) circuit is a unitary of its own: used alone, its backward undoes its forward
                    if comp != "none" and variant == "built":
                        for li, layer in enumerate(circ.layers_forward()):
                            if hasattr(layer, "gates") and layer.gates:
                                roundtrip(rec, B, "layer.of_compiled_circuit.%s" % comp, layer, ins[li % len(ins)], dict(desc, config=sub, layer=li), nt)
                    # a copy taken AFTER the circuit has been used (gates may have cached derived maps by now) and,
                    # for compiled ones, a copy that is compiled again from its own gates
                    if variant == "built" and hasattr(circ, "copy"):
                        ok, c2 = rec.attempt("cfg.copy_after_use", desc, lambda: circ.copy())
                        if ok:
                            for item in ins[:3]:
                                roundtrip(rec, B, "%s.copy_after_use.%s" % (cls, comp), c2, item, dict(desc, config=sub), nt)
                            ok, _ = rec.attempt("cfg.copy_recompiled", desc, (lambda: c2.compile(N)) if cls == "CliffordCircuit" else (lambda: c2.compile()))
                            if ok:
                                for item in ins[:3]:
                                    roundtrip(rec, B, "%s.copy_recompiled.%s" % (cls, comp), c2, item, dict(desc, config=sub), nt)


def run_big(shard, rec, B):
    """round trips on registers wider than a machine word, gates overlapping on high qubits only."""
    rng = gen.rng_for(rec)
    classes = ["CliffordCircuit"] + (["Circuit"] if hasattr(B.circuit, "Circuit") else [])
    Ns = [33, 64, 65, 66, 70, 130] if B.name == "np" else [33, 66]
    for t in range(shard["n"]):
        for N in Ns:
            prog, hot = PR.wide_program(rng, N)
            desc = {"N": N, "program": [{"kind": s["kind"], "qubits": s["qubits"]} for s in prog]}
            L = 5
            gs = np.stack([gen.sparse_string(rng, N, 3) for _ in range(L)])
            for j in range(L):
                for q in rng.choice(hot, size=2, replace=False):
                    gs[j, 2 * q:2 * q + 2] = rng.integers(0, 2, 2)
            ps = rng.integers(0, 4, L)
            items = [("list", None, gs, ps, None)]
            if N <= 70:
                tg, tp, r = O.random_tableau(rng, N, nrot=10)
                items.append(("state", None, tg, tp, r))
            for cls in classes:
                for variant in CC.VARIANTS:
                    for comp in (CC.COMPILE if N <= 70 else ("none", "layers")):
                        sub = "%s.%s.%s" % (cls, variant, comp)
                        ok, res = rec.attempt("cfg." + sub, desc, lambda: CC.configure(B, cls, prog, N, variant, comp))
                        if not ok or res[0] is None:
                            continue
                        for item in items:
                            roundtrip(rec, B, sub, res[0], item, dict(desc, config=sub), True)


def _forward_value(rec, B, g, N, fmap, rng, desc):
    """forward of the gate on a fresh list against the oracle map (so that a stale direction is attributed, not only the mismatch)."""
    L = int(rng.integers(2, 7))
    gs, ps = gen.rand_list(rng, L, N), rng.integers(0, 4, L)
    A = B.PauliList(gs.copy(), ps.copy())
    ok, _ = rec.attempt("gate.live.value", desc, lambda: g.forward(A))
    if ok:
        ag, ap = B.gsps(A)
        eg, ep = O.map_image_list(fmap[0], fmap[1], gs, ps)
        rec.check("gate.live.value", np.array_equal(ag, eg) and np.array_equal(ap, ep), desc, True,
                  expected=[O.show(a, b) for a, b in zip(eg, ep)], observed=[O.show(a, b) for a, b in zip(ag, ap)])


def run_live(shard, rec, B):
    """gates whose defining objects (map, generator) have a history of their own: queried and edited in place before they reach
    the gate, or replaced on a gate that has already run in both directions."""
    rng = gen.rng_for(rec)
    C = B.circuit
    for t in range(shard["n"]):
        N = int(rng.integers(2, 6))
        n = int(rng.integers(1, min(N, 3) + 1))
        qubits = gen.rand_subset(rng, N, n)
        ins = CC.inputs(B, N, rng, kinds=("list", "state", "pauli", "poly"))
        # --- a map that was queried and then edited in place (rotate_by / transform_by keep it a valid map)
        mg, mp = O.random_map(rng, n)
        m = B.Map(mg.copy(), mp.copy())
        hist = []
        ok, _ = rec.attempt("gate.live.map_history", [n, t], lambda: (m.inverse(), m.inverse().inverse(), m.copy(), m.compose(m.inverse())))
        cur = (mg, mp % 4)
        for e in range(int(rng.integers(1, 4))):
            if rng.integers(2):
                G, PG = gen.rand_nonid(rng, n), 2 * int(rng.integers(2))
                ok, _ = rec.attempt("gate.live.map_history", [n, t, "rotate"], lambda: m.rotate_by(B.Pauli(G, PG)))
                cur = O.rot_image(G, PG, cur[0], cur[1])
                hist.append("rotate_by " + O.show(G, PG))
            else:
                og, op = O.random_map(rng, n)
                ok, _ = rec.attempt("gate.live.map_history", [n, t, "transform"], lambda: m.transform_by(B.Map(og.copy(), op.copy())))
                cur = O.map_image_list(og, op, cur[0], cur[1])
                hist.append("transform_by")
            if rng.integers(2):
                rec.attempt("gate.live.map_history", [n, t, "inverse"], lambda: m.inverse())
                hist.append("inverse()")
        lg, lp = B.gsps(m)
        if not (np.array_equal(lg, cur[0]) and np.array_equal(lp, cur[1] % 4)) or not O.map_valid(cur[0], cur[1]):
            rec.check("gate.live.map_history", False, [n, t, hist], True, expected="in-place edits as C02/C03 dictate")
            continue
        for how in ("fmap", "bmap"):
            for compiled in (False, True):
                g = C.CliffordGate(*qubits)
                (g.set_forward_map if how == "fmap" else g.set_backward_map)(m)
                desc = {"N": N, "qubits": qubits, "how": how, "compiled": compiled, "map_history": hist,
                        "map": [O.show(a, b) for a, b in zip(cur[0], cur[1])]}
                if compiled:
                    ok, _ = rec.attempt("gate.compile", desc, lambda: g.compile())
                    if not ok:
                        continue
                for item in ins[:3]:
                    roundtrip(rec, B, "gate.live.%s" % how, g, item, desc, True)
                fmap = PR.spec_map({"kind": how, "mg": cur[0], "mp": cur[1], "qubits": qubits}, N)
                _forward_value(rec, B, g, N, fmap, rng, desc)
        # --- the generator is handed over as a monomial with coefficient 1 (a term H[k] of a polynomial is one), through the
        #     setter and through clifford_rotation_gate
        if hasattr(B.paulialg, "PauliMonomial"):
            Gm, Pm = gen.rand_nonid(rng, n), 2 * int(rng.integers(2))
            for how in ("setter", "constructor"):
                Mn = B.Pauli(Gm.copy(), Pm).as_monomial()
                if how == "setter":
                    gm = C.CliffordGate(*qubits)
                    gm.set_generator(Mn)
                    spec = {"kind": "setgen", "G": Gm, "PG": Pm, "qubits": qubits}
                else:
                    ok, gm = rec.attempt("gate.live.monomial", [O.show(Gm, Pm), qubits], lambda: C.clifford_rotation_gate(Mn, np.array(qubits)))
                    if not ok:
                        continue
                    spec = {"kind": "genq", "G": Gm, "PG": Pm, "qarray": qubits, "qubits": qubits}
                for compiled in (False, True):
                    if compiled:
                        ok, _ = rec.attempt("gate.compile", [O.show(Gm, Pm)], lambda: gm.compile())
                        if not ok:
                            continue
                    dm = {"N": N, "qubits": qubits, "gen": O.show(Gm, Pm), "given_as": "PauliMonomial via " + how, "compiled": compiled}
                    for item in ins[:3]:
                        roundtrip(rec, B, "gate.live.monomial", gm, item, dm, True)
                    _forward_value(rec, B, gm, N, PR.spec_map(spec, N), rng, dm)
        # --- a map slot specified twice before the gate is ever used (the later one counts), and a named gate re-purposed
        F1, F2 = O.random_map(rng, n), O.random_map(rng, n)
        for how in ("fmap.twice", "bmap.twice", "named.repurposed"):
            if how == "named.repurposed":
                if n != 1 or B.name != "np":
                    continue
                g2 = C.H(qubits[0])
                g2.backward_map = None
                g2.set_forward_map(B.Map(F2[0].copy(), F2[1].copy()))
                kind = "fmap"
            else:
                g2 = C.CliffordGate(*qubits)
                setter = g2.set_forward_map if how.startswith("fmap") else g2.set_backward_map
                setter(B.Map(F1[0].copy(), F1[1].copy()))
                setter(B.Map(F2[0].copy(), F2[1].copy()))
                kind = how[:4]
            d2 = {"N": N, "qubits": qubits, "how": how, "map": [O.show(a, b) for a, b in zip(F2[0], F2[1])]}
            for item in ins[:3]:
                roundtrip(rec, B, "gate.live.respecified", g2, item, d2, True)
            _forward_value(rec, B, g2, N, PR.spec_map({"kind": kind, "mg": F2[0], "mp": F2[1], "qubits": qubits}, N), rng, d2)
        # --- a rotation gate that has run in both directions gets another generator: through the setter, by writing the
        #     attribute (what the library's own constructors do), or because the Pauli it holds is edited in place by its owner
        G1, P1 = gen.rand_nonid(rng, n), 2 * int(rng.integers(2))
        Pobj = B.Pauli(G1.copy(), P1)
        g = C.CliffordGate(*qubits)
        g.set_generator(Pobj)
        desc = {"N": N, "qubits": qubits, "gen": O.show(G1, P1)}
        roundtrip(rec, B, "gate.live.regen.first", g, ins[0], desc, True)
        how = ("attr", "setter", "inplace", "neg")[t % 4]
        if how == "inplace":
            Q = gen.rand_nonid(rng, n)
            for _ in range(50):
                if O.anti(Q, G1):
                    break
                Q = gen.rand_nonid(rng, n)
            if not O.anti(Q, G1):
                how = "attr"
            else:
                ok, _ = rec.attempt("gate.live.regen.inplace", desc, lambda: Pobj.rotate_by(B.Pauli(Q.copy(), 0)))
                G2, P2 = O.rot_image(Q, 0, G1[None, :], np.array([P1]))
                G2, P2 = G2[0], int(P2[0])
        if how in ("attr", "setter", "neg"):
            if how == "neg":
                G2, P2 = G1.copy(), (P1 + 2) % 4
            else:
                G2, P2 = gen.rand_nonid(rng, n), 2 * int(rng.integers(2))
            if how == "setter":
                g.set_generator(B.Pauli(G2.copy(), P2))
            else:
                g.generator = B.Pauli(G2.copy(), P2)
        desc = dict(desc, regen=how, new=O.show(G2, P2))
        for item in ins[:3]:
            roundtrip(rec, B, "gate.live.regen.%s" % how, g, item, desc, True)
        _forward_value(rec, B, g, N, PR.spec_map({"kind": "setgen", "G": G2, "PG": P2, "qubits": qubits}, N), rng, desc)
