"""C01 Pauli multiplication is exact (strings, phases, commutation)."""
import itertools

import numpy as np

from .. import oracle as O
from .. import gen

RULE = ("exhaustive ordered operand pairs (string x phase) for N<=3, random hostile pairs (all-Y, identity, "
        "single-site, phases i/-i) for N up to 64, chains checked at every step, associativity triples; a case is "
        "non-trivial when both operands are non-identity and (some phase != 0 or the strings anticommute); "
        "distinct = distinct (sub-check, operands) digests")
ASSUMPTIONS = ["oracle: 2x2 literal Pauli matrices + Kronecker products; independent 4x4 one-qubit table",
               "phases compared mod 4; dtypes not judged"]
REQUIRED_SUBS = ["matmul.pure", "matmul.listop", "matmul.classes", "chain.operand", "matmul.table", "matmul.dense", "acq", "ipow", "chain.drift", "assoc", "square", "batch_dot",
                 "combine.chain", "acq_mat"]


def shards(tier):
    q = tier == "quick"
    out = [
        {"name": "exh.np.interp", "mode": "interp", "backend": "np", "fn": "exh", "Ns": [1, 2, 3]},
        {"name": "exh.np.jit", "mode": "jit", "backend": "np", "fn": "exh", "Ns": [1, 2] if q else [1, 2, 3]},
        {"name": "rand.np.jit", "mode": "jit", "backend": "np", "fn": "rand", "n": 6000 if q else 300000,
         "chain": 500 if q else 10000},
        {"name": "forms.np.jit", "mode": "jit", "backend": "np", "fn": "rand", "n": 1200 if q else 30000, "chain": 200 if q else 2000, "forms": 1},
        {"name": "rand.np.interp", "mode": "interp", "backend": "np", "fn": "rand", "n": 1500 if q else 30000,
         "chain": 300 if q else 3000},
        {"name": "exh.torch", "mode": "jit", "backend": "torch", "fn": "exh", "Ns": [1, 2] if q else [1, 2, 3]},
        {"name": "rand.torch", "mode": "jit", "backend": "torch", "fn": "rand", "n": 1500 if q else 40000,
         "chain": 300 if q else 3000},
        {"name": "big.np.jit", "mode": "jit", "backend": "np", "fn": "big", "n": 20 if q else 400},
        {"name": "big.np.interp", "mode": "interp", "backend": "np", "fn": "big", "n": 4 if q else 40},
        {"name": "big.torch", "mode": "jit", "backend": "torch", "fn": "big", "n": 8 if q else 150},
        {"name": "forms.torch", "mode": "jit", "backend": "torch", "fn": "rand", "n": 400 if q else 8000, "chain": 100 if q else 1000, "forms": 1},
    ]
    if not q:
        for k in range(6):
            out.append({"name": "rand.np.jit.%d" % k, "mode": "jit", "backend": "np", "fn": "rand", "n": 300000,
                        "chain": 10000})
        out.append({"name": "exh4.np.jit", "mode": "jit", "backend": "np", "fn": "exh4"})
    return out


def nontrivial(g1, p1, g2, p2):
    return bool(np.any(g1)) and bool(np.any(g2)) and (p1 % 4 != 0 or p2 % 4 != 0 or bool(O.anti(g1, g2)))


def run(shard, rec, B):
    globals()["run_" + shard["fn"]](shard, rec, B)


def _matmul(rec, B, g1, p1, g2, p2, dense=False, exp=None):
    case = [O.show(g1, p1), O.show(g2, p2)]
    ok, R = rec.attempt("matmul", case, lambda: B.Pauli(g1, p1) @ B.Pauli(g2, p2))
    if not ok:
        return None
    g, p = B.gp(R)
    eg, ep = exp if exp is not None else O.mul(g1, p1, g2, p2)
    nt = nontrivial(g1, p1, g2, p2)
    rec.check("matmul.table", np.array_equal(g, eg) and p == int(ep) % 4, case, nt,
              expected=O.show(eg, ep), observed=O.show(g, p))
    if dense:
        rec.check("matmul.dense", O.close(O.dense(g1, p1) @ O.dense(g2, p2), O.dense(g, p)), case, nt,
                  expected="matrix product", observed=O.show(g, p))
    return g, p


def run_exh(shard, rec, B):
    for N in shard["Ns"]:
        S = O.all_strings(N)
        n = len(S)
        rec.space("ordered pairs (string,phase)x(string,phase) N=%d" % N, n * n * 16)
        for i in range(n):
            eg_all, eph = O.mul(S[i][None, :], 0, S, 0)
            for j in range(n):
                # kernels: acq / ipow on bare strings
                a = B.utils.acq(B.arr(S[i]), B.arr(S[j]))
                case = [O.g2s(S[i]), O.g2s(S[j])]
                ea = int(O.anti(S[i], S[j]))
                nt0 = bool(S[i].any()) and bool(S[j].any())
                rec.check("acq", int(B.np(a)) == ea, case, nt0, expected=ea, observed=int(B.np(a)))
                if N <= 2 or (i + j) % 4 == 0:
                    rec.check("acq.dense", bool(ea) == O.close(O.dense(S[i]) @ O.dense(S[j]), -O.dense(S[j]) @ O.dense(S[i])),
                              case, nt0)
                ip = B.utils.ipow(B.arr(S[i]), B.arr(S[j]))
                rec.check("ipow", int(B.ph(ip)) == int(eph[j]) % 4, case, nt0, expected=int(eph[j]), observed=int(B.ph(ip)))
                for p1 in range(4):
                    for p2 in range(4):
                        dense = (N <= 2) or ((i * n + j + p1 + p2) % 8 == 0)
                        _matmul(rec, B, S[i], p1, S[j], p2, dense=dense, exp=(eg_all[j], eph[j] + p1 + p2))
        # squares: P@P = +-I
        for i in range(n):
            for p in range(4):
                ok, R = rec.attempt("square", [O.show(S[i], p)], lambda: B.Pauli(S[i], p) @ B.Pauli(S[i], p))
                if ok:
                    g, q = B.gp(R)
                    rec.check("square", (not g.any()) and q == (2 * p) % 4, [O.show(S[i], p)], bool(S[i].any()),
                              expected=O.show(0 * g, 2 * p), observed=O.show(g, q))
        # acq_mat over whole string space (N<=2) or random subsets
        rng = gen.rng_for(rec, N)
        for t in range(20):
            L = int(rng.integers(1, 9))
            gs = S[rng.integers(0, n, L)]
            ok, M = rec.attempt("acq_mat", gs, lambda: B.utils.acq_mat(B.arr(gs)))
            if ok:
                rec.check("acq_mat", np.array_equal(B.np(M), O.anti_mat(gs)), [O.g2s(g) for g in gs], True)
        if B.name == "torch":
            gs1 = S[rng.integers(0, n, 6)]
            gs2 = S[rng.integers(0, n, 5)]
            M = B.utils.acq_grid(B.arr(gs1), B.arr(gs2))
            rec.check("acq_grid", np.array_equal(B.np(M), O.anti(gs1[:, None, :], gs2[None, :, :])),
                      [[O.g2s(g) for g in gs1], [O.g2s(g) for g in gs2]], True)


def run_exh4(shard, rec, B):
    N = 4
    S = O.all_strings(N)
    n = len(S)
    rng = gen.rng_for(rec)
    rec.space("ordered string pairs N=4 (4 sampled phase pairs each)", n * n)
    for i in range(n):
        eg_all, eph = O.mul(S[i][None, :], 0, S, 0)
        for j in range(n):
            for _ in range(4):
                p1, p2 = int(rng.integers(4)), int(rng.integers(4))
                _matmul(rec, B, S[i], p1, S[j], p2, exp=(eg_all[j], eph[j] + p1 + p2))


def run_rand(shard, rec, B):
    rng = gen.rng_for(rec)
    Ns = [4, 5, 6, 7, 8, 9, 10, 11, 12, 31, 32, 33, 64] if B.name == "np" else [3, 4, 5, 6, 8, 12, 33]
    n = shard["n"]
    for t in range(n):
        N = Ns[t % len(Ns)]
        g1, g2 = gen.rand_string(rng, N), gen.rand_string(rng, N)
        p1, p2 = int(rng.integers(4)), int(rng.integers(4))
        _matmul(rec, B, g1, p1, g2, p2, dense=(N <= 5 and t % 4 == 0))
        if t % 3 == 0:
            a = B.utils.acq(B.arr(g1), B.arr(g2))
            rec.check("acq", int(B.np(a)) == int(O.anti(g1, g2)), [O.g2s(g1), O.g2s(g2)], True)
            ip = B.utils.ipow(B.arr(g1), B.arr(g2))
            rec.check("ipow", int(B.ph(ip)) == int(O.mul(g1, 0, g2, 0)[1]), [O.g2s(g1), O.g2s(g2)], True)
    # associativity triples through the library only + oracle on the result
    for t in range(max(200, n // 5)):
        N = Ns[t % len(Ns)]
        gs = [gen.rand_string(rng, N) for _ in range(3)]
        ps = [int(rng.integers(4)) for _ in range(3)]
        P = [B.Pauli(g, p) for g, p in zip(gs, ps)]
        case = [O.show(g, p) for g, p in zip(gs, ps)]
        ok, R = rec.attempt("assoc", case, lambda: ((P[0] @ P[1]) @ P[2], P[0] @ (P[1] @ P[2])))
        if ok:
            (ga, pa), (gb, pb) = B.gp(R[0]), B.gp(R[1])
            eg, ep = O.mul(*O.mul(gs[0], ps[0], gs[1], ps[1]), gs[2], ps[2])
            rec.check("assoc", np.array_equal(ga, gb) and pa == pb and np.array_equal(ga, eg) and pa == int(ep),
                      case, all(g.any() for g in gs), expected=O.show(eg, ep), observed=[O.show(ga, pa), O.show(gb, pb)])
    # operands that are themselves results of earlier products are re-observed after being used (no operand may change)
    for t in range(max(100, n // 20)):
        N = Ns[t % len(Ns)]
        g1, g2, g3 = gen.rand_string(rng, N), gen.rand_string(rng, N), gen.rand_string(rng, N)
        p1, p2, p3 = (int(x) for x in rng.integers(0, 4, 3))
        I = B.Pauli(np.zeros(2 * N, dtype=np.int64), 0)
        case = [O.show(g1, p1), O.show(g2, p2), O.show(g3, p3)]
        ok, R = rec.attempt("matmul.pure", case, lambda: (I @ B.Pauli(g1, p1), B.Pauli(g2, p2) @ I))
        if ok:
            A, Bq = R
            ok, R2 = rec.attempt("matmul.pure", case, lambda: (A @ Bq, A @ B.Pauli(g3, p3), Bq @ A, (-A) @ Bq))
            if ok:
                (ga, pa), (gb, pb) = B.gp(A), B.gp(Bq)
                eg, ep = O.mul(g1, p1, g2, p2)
                rg, rp = B.gp(R2[0])
                rec.check("matmul.pure", np.array_equal(ga, g1) and pa == p1 and np.array_equal(gb, g2) and pb == p2
                          and np.array_equal(rg, eg) and rp == int(ep), case, nontrivial(g1, p1, g2, p2),
                          expected=case[:2], observed=[O.show(ga, pa), O.show(gb, pb)])
    # operands that the library itself hands out: elements of a list (views of the list's arrays), Paulis that were rotated /
    # transformed before; products are formed several times and the list is re-observed afterwards
    for t in range(max(100, n // 20)):
        N = Ns[t % len(Ns)]
        L = int(rng.integers(2, 6))
        gs, ps = gen.rand_list(rng, L, N), rng.integers(0, 4, L)
        PLs = B.PauliList(gs.copy(), ps.copy())
        i, j = int(rng.integers(L)), int(rng.integers(L))
        case = ["list operands", O.show(gs[i], ps[i]), O.show(gs[j], ps[j])]
        ok, R = rec.attempt("matmul.listop", case, lambda: (PLs[i] @ PLs[j], PLs[i] @ PLs[j], PLs[j] @ PLs[i]))
        if ok:
            eg, ep = O.mul(gs[i], ps[i], gs[j], ps[j])
            e2g, e2p = O.mul(gs[j], ps[j], gs[i], ps[i])
            (ag, ap), (bg, bp), (cg, cp) = B.gp(R[0]), B.gp(R[1]), B.gp(R[2])
            lg, lp = B.gsps(PLs)
            rec.check("matmul.listop", np.array_equal(ag, eg) and ap == int(ep) and np.array_equal(bg, eg) and bp == int(ep)
                      and np.array_equal(cg, e2g) and cp == int(e2p) and np.array_equal(lg, gs) and np.array_equal(lp, ps % 4),
                      case, nontrivial(gs[i], ps[i], gs[j], ps[j]), expected=[O.show(eg, ep), "list unchanged"],
                      observed=[O.show(ag, ap), O.show(bg, bp), [O.show(x, y) for x, y in zip(lg, lp)]])
        G, PG = gen.rand_nonid(rng, N), 2 * int(rng.integers(2))
        A = B.Pauli(gs[i].copy(), int(ps[i]))
        ok, _ = rec.attempt("matmul.listop", case, lambda: A.rotate_by(B.Pauli(G, PG)))
        if ok:
            ag0, ap0 = B.gp(A)
            Bq = B.Pauli(gs[j].copy(), int(ps[j]))
            ok, R = rec.attempt("matmul.listop", case, lambda: (A @ Bq, A @ Bq))
            if ok:
                eg, ep = O.mul(ag0, ap0, gs[j], ps[j])
                (ag, ap), (bg, bp) = B.gp(R[0]), B.gp(R[1])
                a1g, a1p = B.gp(A)
                rec.check("matmul.listop", np.array_equal(ag, eg) and ap == int(ep) and np.array_equal(bg, eg) and bp == int(ep)
                          and np.array_equal(a1g, ag0) and a1p == ap0, ["rotated operand", O.show(ag0, ap0), O.show(gs[j], ps[j])], True)
    # products between different classes (Pauli, monomial, polynomial) and the same after the Pauli was changed in place
    for t in range(max(60, n // 40)):
        N = int(rng.integers(1, 5))
        g, p = gen.rand_string(rng, N), int(rng.integers(4))
        P = B.Pauli(g.copy(), p)
        hg, hp, hc = gen.rand_list(rng, 3, N), rng.integers(0, 4, 3), gen.rand_coeffs(rng, 3)
        H = B.Poly(hg.copy(), hp.copy(), hc.copy())
        DH = O.dense_poly(hg, hp, hc)
        case = ["mixed classes", O.show(g, p), [[O.show(a, b), c] for a, b, c in zip(hg, hp, hc)]]

        def dn(x):
            if hasattr(x, "cs"):
                return O.dense_poly(B.np(x.gs).reshape(-1, 2 * N), B.ph(x.ps), B.cnp(x.cs))
            gg, pp = B.gp(x)
            return (complex(x.c) if hasattr(x, "c") else 1.0) * O.dense(gg, pp)
        cur = (g, p)
        for stage in range(3):
            DP = O.dense(cur[0], cur[1])
            ok, R = rec.attempt("matmul.classes", case, lambda: (P @ H, H @ P))
            if ok:
                tol = 1e-8 if B.name == "np" else 1e-4
                rec.check("matmul.classes", O.close(dn(R[0]), DP @ DH, tol * (1 + np.abs(DH).max())) and O.close(dn(R[1]), DH @ DP, tol * (1 + np.abs(DH).max())),
                          case + [stage], True)
            if hasattr(B.paulialg, "PauliMonomial"):
                Mn = B.Pauli(hg[0].copy(), int(hp[0])).as_monomial()
                Mn.c = 2.5 - 1j
                ok, R = rec.attempt("matmul.classes", case, lambda: (P @ Mn, Mn @ P, Mn @ Mn))
                if ok:
                    DM = (2.5 - 1j) * O.dense(hg[0], hp[0])
                    rec.check("matmul.classes", O.close(dn(R[0]), DP @ DM, 1e-8) and O.close(dn(R[1]), DM @ DP, 1e-8) and O.close(dn(R[2]), DM @ DM, 1e-8), case + ["mono", stage], True)
            if stage == 0:
                G, PG = gen.rand_nonid(rng, N), 2 * int(rng.integers(2))
                P.rotate_by(B.Pauli(G, PG))
                cur = O.rot_image(G, PG, cur[0], cur[1])
                cur = (cur[0], int(cur[1]))
            elif stage == 1:
                mg, mp = O.random_map(rng, N)
                P.transform_by(B.Map(mg, mp))
                cur = O.map_image(mg, mp, cur[0], cur[1])
    # chains: running product, checked at every step (phase drift)
    for c in range(4):
        N = [3, 7, 33, 12][c]
        acc = B.Pauli(np.zeros(2 * N, dtype=np.int64), 0)
        og, op = np.zeros(2 * N, dtype=np.int64), 0
        hist = []
        bad = None
        for k in range(shard["chain"]):
            g, p = gen.rand_nonid(rng, N), int(rng.integers(4))
            ok, acc2 = rec.attempt("chain", [N, k], lambda: acc @ B.Pauli(g, p))
            if not ok:
                break
            if k % 7 == 0:  # the previous partial product is still what it was
                qg, qp = B.gp(acc)
                rec.check("chain.operand", np.array_equal(qg, og) and qp == int(op) % 4, ["chain-operand", N, c, k], True,
                          expected=O.show(og, op), observed=O.show(qg, qp))
            acc = acc2
            og, op = O.mul(og, op, g, p)
            lg, lp = B.gp(acc)
            good = np.array_equal(lg, og) and lp == int(op)
            rec.check("chain.drift", good, ["chain", N, c, k, O.show(g, p)], True,
                      expected=O.show(og, op), observed=O.show(lg, lp))
            if not good:
                break
        rec.bump("chain_steps_observed", k + 1)
    # pauli_combine chains (ordered products of selected rows) and batch_dot
    for t in range(max(60, n // 40)):
        N = int(rng.integers(1, 7))
        Lin, Lout = int(rng.integers(1, 7)), int(rng.integers(1, 5))
        gs = gen.rand_list(rng, Lin, N)
        ps = rng.integers(0, 4, Lin)
        C = rng.integers(0, 2, (Lout, Lin))
        case = {"C": C, "ops": [O.show(g, p) for g, p in zip(gs, ps)]}
        ok, R = rec.attempt("combine", case, lambda: B.utils.pauli_combine(B.arr(C), B.arr(gs), B.arr(ps)))
        if ok:
            og = np.zeros((Lout, 2 * N), dtype=np.int64)
            op = np.zeros(Lout, dtype=np.int64)
            for a in range(Lout):
                for b in range(Lin):
                    if C[a, b]:
                        og[a], op[a] = O.mul(og[a], op[a], gs[b], ps[b])
            rec.check("combine.chain", np.array_equal(B.np(R[0]), og) and np.array_equal(B.ph(R[1]), op % 4), case,
                      bool(C.sum() > 1), expected=[O.show(g, p) for g, p in zip(og, op)],
                      observed=[O.show(g, p) for g, p in zip(B.np(R[0]), B.ph(R[1]))])
        L1, L2 = int(rng.integers(1, 5)), int(rng.integers(1, 5))
        N = int(rng.integers(1, 5))
        g1, g2 = gen.rand_list(rng, L1, N), gen.rand_list(rng, L2, N)
        q1, q2 = rng.integers(0, 4, L1), rng.integers(0, 4, L2)
        c1, c2 = gen.rand_coeffs(rng, L1), gen.rand_coeffs(rng, L2)
        case = {"a": [[O.show(g, p), c] for g, p, c in zip(g1, q1, c1)], "b": [[O.show(g, p), c] for g, p, c in zip(g2, q2, c2)]}
        ok, R = rec.attempt("batch_dot", case, lambda: B.utils.batch_dot(B.arr(g1), B.arr(q1), B.carr(c1), B.arr(g2), B.arr(q2), B.carr(c2)))
        if ok:
            rg, rp, rc = B.np(R[0]), B.ph(R[1]), B.cnp(R[2])
            good = rg.shape == (L1 * L2, 2 * N)
            if good:
                for a in range(L1):
                    for b in range(L2):
                        eg, ep = O.mul(g1[a], q1[a], g2[b], q2[b])
                        k = a * L2 + b
                        good = good and np.array_equal(rg[k], eg) and rp[k] == int(ep) and abs(rc[k] - c1[a] * c2[b]) < 1e-4 * (1 + abs(rc[k]))
            rec.check("batch_dot", bool(good), case, True)
        # polynomial product through the class, observed as a dense matrix
        ok, R = rec.attempt("poly.matmul", case, lambda: B.Poly(g1, q1, c1) @ B.Poly(g2, q2, c2))
        if ok:
            M = O.dense_poly(B.np(R.gs), B.ph(R.ps), B.cnp(R.cs))
            E = O.dense_poly(g1, q1, c1) @ O.dense_poly(g2, q2, c2)
            rec.check("poly.matmul", O.close(M, E, 1e-4 * (1 + np.abs(E).max())), case, True)
    if B.name == "torch":
        for t in range(40):
            N = int(rng.integers(1, 6))
            L1, L2 = int(rng.integers(1, 5)), int(rng.integers(1, 5))
            g1, g2 = gen.rand_list(rng, L1, N), gen.rand_list(rng, L2, N)
            ok, R = rec.attempt("ipow_product", [g1, g2], lambda: B.utils.ipow_product(B.arr(g1), B.arr(g2)))
            if ok:
                E = O.mul(g1[:, None, :], 0, g2[None, :, :], 0)[1].reshape(-1)
                rec.check("ipow_product", np.array_equal(B.ph(R), E % 4), [g1, g2], True)


def run_big(shard, rec, B):
    """registers and lists around machine-word / byte / block thresholds (N up to 130, lists to 1000, products to 10^5 terms);
    table oracle only (dense matrices do not exist at these sizes)."""
    rng = gen.rng_for(rec)
    for t in range(shard["n"]):
        for N in gen.BIG_NS:
            # single high/low-qubit operators and dense random ones
            pairs = [(gen.sparse_string(rng, N), gen.sparse_string(rng, N)), (gen.rand_string(rng, N), gen.rand_string(rng, N))]
            hi = np.zeros(2 * N, dtype=np.int64)
            lo = np.zeros(2 * N, dtype=np.int64)
            q = int(rng.integers(N))
            hi[2 * q], lo[2 * q + 1] = 1, 1          # X_q vs Z_q on one qubit anywhere in the register
            pairs.append((hi, lo))
            for g1, g2 in pairs:
                p1, p2 = int(rng.integers(4)), int(rng.integers(4))
                _matmul(rec, B, g1, p1, g2, p2)
                a = B.utils.acq(B.arr(g1), B.arr(g2))
                rec.check("acq", int(B.np(a)) == int(O.anti(g1, g2)), ["big", N, O.g2s(g1), O.g2s(g2)], True, expected=int(O.anti(g1, g2)), observed=int(B.np(a)))
                ip = B.utils.ipow(B.arr(g1), B.arr(g2))
                rec.check("ipow", int(B.ph(ip)) == int(O.mul(g1, 0, g2, 0)[1]), ["big", N, O.g2s(g1), O.g2s(g2)], True)
            L = int(rng.integers(2, 9))
            gs = np.stack([gen.sparse_string(rng, N) if rng.integers(2) else gen.rand_string(rng, N) for _ in range(L)])
            gs[0], gs[1] = hi, lo
            ok, M = rec.attempt("acq_mat", [N, L], lambda: B.utils.acq_mat(B.arr(gs)))
            if ok:
                rec.check("acq_mat", np.array_equal(B.np(M), O.anti_mat(gs)), ["big", N, [O.g2s(g) for g in gs]], True,
                          expected=O.anti_mat(gs), observed=B.np(M))
            ps = rng.integers(0, 4, L)
            C = rng.integers(0, 2, (3, L))
            ok, R = rec.attempt("combine", [N, L], lambda: B.utils.pauli_combine(B.arr(C), B.arr(gs), B.arr(ps)))
            if ok:
                og = np.zeros((3, 2 * N), dtype=np.int64)
                op = np.zeros(3, dtype=np.int64)
                for a_ in range(3):
                    for b_ in range(L):
                        if C[a_, b_]:
                            og[a_], op[a_] = O.mul(og[a_], op[a_], gs[b_], ps[b_])
                rec.check("combine.chain", np.array_equal(B.np(R[0]), og) and np.array_equal(B.ph(R[1]), op % 4), ["big", N, C, [O.show(g, p) for g, p in zip(gs, ps)]], True)
        # long lists and large polynomial products (phases checked term by term with the vectorised table oracle)
        shapes = [(300, 300), (1000, 70), (2, 40000), (257, 255), (64, 1025)] if t == 0 else [(int(rng.integers(1, 400)), int(rng.integers(1, 400)))]
        for (L1, L2) in shapes:
            N = int(rng.integers(2, 6))
            g1, g2 = rng.integers(0, 2, (L1, 2 * N)), rng.integers(0, 2, (L2, 2 * N))
            q1, q2 = rng.integers(0, 4, L1), rng.integers(0, 4, L2)
            c1, c2 = gen.rand_coeffs(rng, L1), gen.rand_coeffs(rng, L2)
            case = ["big batch_dot", N, L1, L2, int(g1.sum()), int(g2.sum())]
            ok, R = rec.attempt("batch_dot", case, lambda: B.utils.batch_dot(B.arr(g1), B.arr(q1), B.carr(c1), B.arr(g2), B.arr(q2), B.carr(c2)))
            if ok:
                eg, ep = O.mul(g1[:, None, :], q1[:, None], g2[None, :, :], q2[None, :])
                rg, rp, rc = B.np(R[0]), B.ph(R[1]), B.cnp(R[2])
                good = rg.shape == (L1 * L2, 2 * N) and np.array_equal(rg, eg.reshape(L1 * L2, 2 * N)) and np.array_equal(rp, ep.reshape(-1) % 4) \
                    and np.allclose(rc, (c1[:, None] * c2[None, :]).reshape(-1), atol=1e-4)
                bad = None
                if not good and rg.shape == (L1 * L2, 2 * N):
                    w = np.nonzero((rp != ep.reshape(-1) % 4) | np.any(rg != eg.reshape(L1 * L2, 2 * N), axis=1))[0]
                    bad = {"first_wrong_term": int(w[0]) if len(w) else None, "n_wrong": int(len(w))}
                rec.check("batch_dot", bool(good), case, True, observed=bad)
            ok, R = rec.attempt("poly.matmul", case, lambda: B.Poly(g1, q1, c1) @ B.Poly(g2, q2, c2))
            if ok:
                eg, ep = O.mul(g1[:, None, :], q1[:, None], g2[None, :, :], q2[None, :])
                rec.check("poly.matmul", np.array_equal(B.np(R.gs), eg.reshape(L1 * L2, 2 * N)) and np.array_equal(B.ph(R.ps), ep.reshape(-1) % 4), case, True)
