"""C03 Applying a Clifford map is a unitary conjugation (phase-exact homomorphism)."""
import itertools

import numpy as np

from .. import oracle as O
from .. import gen

RULE = ("all 24 one-qubit maps x all 16 operands; all 11520 two-qubit maps (enumerated by the oracle: 720 symplectic "
        "matrices x 16 sign patterns) x generators + random operands (every 16th map x all 256 operands quick, all x all "
        "thorough); masked application of n-qubit maps in N-qubit registers at every ascending position; random valid maps "
        "N=3..8 built by the oracle as products of rotations; non-trivial = map is not the identity and operand not identity")
ASSUMPTIONS = ["maps are valid (canonical commutation pattern, Hermitian rows); masks ascending",
               "oracle: image = i^p * prod over letters of map rows by the one-qubit table; explicit unitary for N<=3"]
REQUIRED_SUBS = ["img.identity", "img.generators", "img.all", "img.mult", "img.commutation", "img.hermitian", "img.square",
                 "img.coeffs", "img.mask_vs_embed", "img.rotmap_vs_rot", "unitary", "img.pauli", "embed", "embed.again"]


def shards(tier):
    q = tier == "quick"
    out = [
        {"name": "n1.np.interp", "mode": "interp", "backend": "np", "fn": "exh", "N": 1, "lo": 0, "hi": 24, "full": 1},
        {"name": "n1.torch", "mode": "jit", "backend": "torch", "fn": "exh", "N": 1, "lo": 0, "hi": 24, "full": 1},
        {"name": "mask.np.interp", "mode": "interp", "backend": "np", "fn": "masks", "n": 40 if q else 400},
        {"name": "mask.np.jit", "mode": "jit", "backend": "np", "fn": "masks", "n": 150 if q else 3000},
        {"name": "mask.torch", "mode": "jit", "backend": "torch", "fn": "masks", "n": 40 if q else 600},
        {"name": "rand.np.jit", "mode": "jit", "backend": "np", "fn": "rand", "n": 400 if q else 20000},
        {"name": "forms.np.jit", "mode": "jit", "backend": "np", "fn": "rand", "n": 150 if q else 5000, "forms": 1},
        {"name": "forms.mask.np.jit", "mode": "jit", "backend": "np", "fn": "masks", "n": 100 if q else 2000, "forms": 1},
        {"name": "rand.torch", "mode": "jit", "backend": "torch", "fn": "rand", "n": 100 if q else 3000},
        {"name": "big.np.jit", "mode": "jit", "backend": "np", "fn": "big", "n": 1 if q else 25},
        {"name": "big.torch", "mode": "jit", "backend": "torch", "fn": "big", "n": 1 if q else 6},
        {"name": "forms.torch", "mode": "jit", "backend": "torch", "fn": "rand", "n": 50 if q else 1500, "forms": 1},
        {"name": "forms.mask.torch", "mode": "jit", "backend": "torch", "fn": "masks", "n": 40 if q else 600, "forms": 1},
    ]
    nsh = 4 if q else 8
    per = 11520 // nsh
    for k in range(nsh):
        out.append({"name": "n2.np.jit.%d" % k, "mode": "jit", "backend": "np", "fn": "exh", "N": 2,
                    "lo": k * per, "hi": (k + 1) * per, "full": 16 if q else 1})
    out.append({"name": "n2.np.interp", "mode": "interp", "backend": "np", "fn": "exh", "N": 2, "lo": 0, "hi": 11520,
                "full": 64 if q else 16, "stride": 8 if q else 2})
    out.append({"name": "n2.torch", "mode": "jit", "backend": "torch", "fn": "exh", "N": 2, "lo": 0, "hi": 11520,
                "full": 64 if q else 8, "stride": 24 if q else 3})
    return out


def run(shard, rec, B):
    globals()["run_" + shard["fn"]](shard, rec, B)


def _ops(N):
    S = O.all_strings(N)
    return np.repeat(S, 4, axis=0), np.tile(np.arange(4), len(S))


def check_map(rec, B, mg, mp, gs, ps, rng, full_list=True, unitary=True, tag=""):
    """apply the real map object to the list (gs,ps) and compare with the oracle; structural clauses."""
    N = len(mg) // 2
    M = B.Map(mg.copy(), mp.copy())
    if B.name == "np" and rng.integers(3) == 0:
        B.freeze(M)         # the map is only read
    ident = np.array_equal(mg, np.eye(2 * N, dtype=np.int64)) and not mp.any()
    case = {"map": [O.show(g, p) for g, p in zip(mg, mp)], "L": len(gs), "first": [O.show(g, p) for g, p in zip(gs[:4], ps[:4])]}
    nt = not ident
    # identity and generators
    I = B.PauliList(np.zeros((1, 2 * N), dtype=np.int64), np.zeros(1, dtype=np.int64))
    ok, _ = rec.attempt("img.identity", case, lambda: I.transform_by(M))
    if ok:
        lg, lp = B.gsps(I)
        rec.check("img.identity", (not lg.any()) and lp[0] == 0, case["map"], nt, observed=O.show(lg[0], lp[0]))
    E = B.PauliList(np.eye(2 * N, dtype=np.int64), np.zeros(2 * N, dtype=np.int64))
    ok, _ = rec.attempt("img.generators", case, lambda: E.transform_by(M))
    if ok:
        lg, lp = B.gsps(E)
        rec.check("img.generators", np.array_equal(lg, mg) and np.array_equal(lp, mp % 4), case["map"], nt,
                  expected=case["map"], observed=[O.show(g, p) for g, p in zip(lg, lp)])
    # the list
    eg, ep = O.map_image_list(mg, mp, gs, ps)
    PL = B.PauliList(gs.copy(), ps.copy())
    ok, R = rec.attempt("img.all", case, lambda: PL.transform_by(M))
    if not ok:
        return
    lg, lp = B.gsps(PL)
    good = np.array_equal(lg, eg) and np.array_equal(lp, ep)
    rec.check("img.all", good and R is PL, case, nt, expected=[O.show(g, p) for g, p in zip(eg[:8], ep[:8])],
              observed=[O.show(g, p) for g, p in zip(lg[:8], lp[:8])])
    mg2, mp2 = B.gsps(M)
    rec.check("img.arg_unchanged", np.array_equal(mg2, mg) and np.array_equal(mp2, mp % 4), case["map"], nt)
    # the receiver IS the argument: a map transformed by itself is its square
    Ms = B.Map(mg.copy(), mp.copy())
    ok, _ = rec.attempt("img.self", case["map"], lambda: Ms.transform_by(Ms))
    if ok:
        sg, sp = B.gsps(Ms)
        sq = O.map_image_list(mg, mp, mg, mp)
        rec.check("img.self", np.array_equal(sg, sq[0]) and np.array_equal(sp, sq[1] % 4), case["map"], nt,
                  expected=[O.show(a, b) for a, b in zip(sq[0], sq[1])][:8], observed=[O.show(a, b) for a, b in zip(sg, sp)][:8])
    # structure, observed on the library's own outputs: commutation, hermiticity, squares preserved
    if len(gs) <= 80:
        rec.check("img.commutation", np.array_equal(O.anti_mat(lg), O.anti_mat(gs)), case, nt)
    herm_in = (ps + (gs[:, 0::2] * gs[:, 1::2]).sum(-1) * 0) % 2 == 0
    rec.check("img.hermitian", np.array_equal(lp % 2 == 0, herm_in), case, nt)
    sq_in = O.mul(gs, ps, gs, ps)[1]
    sq_out = O.mul(lg, lp, lg, lp)[1]
    rec.check("img.square", np.array_equal(sq_in, sq_out), case, nt)
    # multiplicativity through the library: image(P@Q) == image(P)@image(Q)
    for t in range(3):
        i, j = int(rng.integers(len(gs))), int(rng.integers(len(gs)))
        P, Q = B.Pauli(gs[i].copy(), int(ps[i])), B.Pauli(gs[j].copy(), int(ps[j]))
        ok, R = rec.attempt("img.mult", case, lambda: ((P @ Q).transform_by(M), P.copy().transform_by(M) @ Q.copy().transform_by(M)))
        if ok:
            (ag, ap), (bg, bp) = B.gp(R[0]), B.gp(R[1])
            xg, xp = O.mul(eg[i], ep[i], eg[j], ep[j])
            rec.check("img.mult", np.array_equal(ag, bg) and ap == bp and np.array_equal(ag, xg) and ap == int(xp),
                      [case["map"], O.show(gs[i], ps[i]), O.show(gs[j], ps[j])], nt and gs[i].any() and gs[j].any(),
                      expected=O.show(xg, xp), observed=[O.show(ag, ap), O.show(bg, bp)])
    # single Pauli receiver
    j = int(rng.integers(len(gs)))
    P = B.Pauli(gs[j].copy(), int(ps[j]))
    ok, R = rec.attempt("img.pauli", case, lambda: P.transform_by(M))
    if ok:
        g1, p1 = B.gp(P)
        rec.check("img.pauli", np.array_equal(g1, eg[j]) and p1 == ep[j] and R is P, [case["map"], O.show(gs[j], ps[j])],
                  nt and gs[j].any(), expected=O.show(eg[j], ep[j]), observed=O.show(g1, p1))
    if hasattr(B.paulialg, "PauliMonomial"):
        Mn = B.Pauli(gs[j].copy(), int(ps[j])).as_monomial()
        Mn.c = -1.5 + 0.25j
        ok, R = rec.attempt("img.mono", case, lambda: Mn.transform_by(M))
        if ok:
            g1, p1 = B.gp(Mn)
            rec.check("img.mono", np.array_equal(g1, eg[j]) and p1 == ep[j] and Mn.c == -1.5 + 0.25j, [case["map"], O.show(gs[j], ps[j])], nt and gs[j].any())
    # polynomial: same rows, coefficients untouched
    cs = gen.rand_coeffs(rng, len(gs))
    Q = B.Poly(gs.copy(), ps.copy(), cs.copy())
    ok, _ = rec.attempt("img.coeffs", case, lambda: Q.transform_by(M))
    if ok:
        qg, qp = B.gsps(Q)
        rec.check("img.coeffs", np.array_equal(qg, eg) and np.array_equal(qp, ep) and np.allclose(B.cnp(Q.cs), cs, atol=1e-6), case, nt)
    # the pauli_transform kernel itself
    ok, R = rec.attempt("img.kernel", case, lambda: B.utils.pauli_transform(B.arr(gs), B.arr(ps), B.arr(mg), B.arr(mp)))
    if ok:
        rec.check("img.kernel", np.array_equal(B.np(R[0]), eg) and np.array_equal(B.ph(R[1]), ep), case, nt)
    # one unitary for every P (N<=3): V M(P) V^dag = M(library image of P)
    if unitary and N <= 3:
        V = O.unitary_from_map(mg, mp)
        good = V is not None and O.close(V.conj().T @ V, np.eye(2 ** N))
        if good:
            for j in range(len(gs)) if len(gs) <= 64 else rng.integers(0, len(gs), 48):
                if not O.close(V @ O.dense(gs[j], ps[j]) @ V.conj().T, O.dense(lg[j], lp[j])):
                    good = False
                    break
        rec.check("unitary", good, case, nt)


def run_exh(shard, rec, B):
    rng = gen.rng_for(rec)
    N = shard["N"]
    gs_all, ps_all = _ops(N)
    maps = list(O.all_maps(N))
    rec.note("maps_enumerated_by_oracle", len(maps))
    if len(maps) != {1: 24, 2: 11520}[N]:
        rec.inconclusive("oracle enumerated %d maps" % len(maps))
    lo, hi, stride = shard["lo"], shard["hi"], shard.get("stride", 1)
    rec.space("valid Clifford maps N=%d [%d:%d:%d]" % (N, lo, hi, stride), len(range(lo, hi, stride)), exhaustive=(stride == 1))
    gens_g = np.concatenate([np.eye(2 * N, dtype=np.int64), O.all_strings(N)[[-1]]])
    for k in range(lo, hi, stride):
        mg, mp = maps[k]
        if k % shard["full"] == 0:
            check_map(rec, B, mg, mp, gs_all, ps_all, rng, unitary=(k % (shard["full"] * 4) == 0 or N == 1))
        else:
            idx = rng.integers(0, len(gs_all), 12)
            gs = np.concatenate([gens_g, gs_all[idx]])
            ps = np.concatenate([rng.integers(0, 4, len(gens_g)), ps_all[idx]])
            check_map(rec, B, mg, mp, gs, ps, rng, unitary=False)
        # rotation map acts like the rotation (every map that is a rotation map is hit through run_masks/rand as well)
    for G in O.all_strings(N):
        for PG in (0, 2):
            _rotmap_vs_rot(rec, B, G, PG, gs_all, ps_all)


def _rotmap_vs_rot(rec, B, G, PG, gs, ps):
    case = [O.show(G, PG), len(gs)]
    ok, M = rec.attempt("img.rotmap_vs_rot", case, lambda: B.stabilizer.clifford_rotation_map(B.Pauli(G, PG)))
    if not ok:
        return
    A = B.PauliList(gs.copy(), ps.copy())
    C = B.PauliList(gs.copy(), ps.copy())
    ok, _ = rec.attempt("img.rotmap_vs_rot", case, lambda: (A.transform_by(M), C.rotate_by(B.Pauli(G, PG))))
    if ok:
        ag, ap = B.gsps(A)
        cg, cp = B.gsps(C)
        eg, ep = O.rot_image(G, PG, gs, ps)
        rec.check("img.rotmap_vs_rot", np.array_equal(ag, cg) and np.array_equal(ap, cp) and np.array_equal(ag, eg) and np.array_equal(ap, ep),
                  case, bool(G.any()))


def _rotmap_string_history(rec, B, G, PG, rng):
    """the rotation map asked for by the generator's spelling, the returned map edited in place by its owner, the same spelling asked
    again (and through a gate): the second answer is the rotation again."""
    txt = ('-' if PG == 2 else '') + O.g2s(G)
    N = len(G) // 2
    xg, xp = O.map_of_rotation(G, PG)
    ok, M1 = rec.attempt("rotmap.string", txt, lambda: B.stabilizer.clifford_rotation_map(txt))
    if not ok:
        return
    mg, mp = B.gsps(M1)
    rec.check("rotmap.string", np.array_equal(mg, xg) and np.array_equal(mp, xp % 4), txt, True)
    H_ = gen.rand_nonid(rng, N)
    ok, _ = rec.attempt("rotmap.string", txt, lambda: M1.rotate_by(B.Pauli(H_, 2 * int(rng.integers(2)))))
    if rng.integers(2):
        M1.ps[:] = (M1.ps + 2) % 4
    ok, M2 = rec.attempt("rotmap.string", txt, lambda: B.stabilizer.clifford_rotation_map(txt))
    if ok:
        mg, mp = B.gsps(M2)
        rec.check("rotmap.string.again", np.array_equal(mg, xg) and np.array_equal(mp, xp % 4), [txt, "after the first answer was edited in place"], True,
                  expected=[O.show(a, b) for a, b in zip(xg, xp)], observed=[O.show(a, b) for a, b in zip(mg, mp)])


def _lib_mask(B, qubits, N):
    m = np.zeros(N, dtype=bool)
    m[list(qubits)] = True
    return m if B.name == "np" else B.torch.tensor(m)


def run_masks(shard, rec, B):
    rng = gen.rng_for(rec)
    maps1 = list(O.all_maps(1))
    maps2 = list(O.all_maps(2))
    cases = []
    for N in (2, 3, 4):
        for n in (1, 2):
            for qubits in itertools.combinations(range(N), n):
                cases.append((N, n, list(qubits)))
    rec.space("ascending placements of n<=2 maps in N<=4 registers", len(cases))
    for t in range(shard["n"]):
        N, n, qubits = cases[t % len(cases)]
        if t >= len(cases) and rng.integers(3) == 0:
            N = int(rng.integers(3, 8))
            n = int(rng.integers(1, min(N, 4) + 1))
            qubits = gen.rand_subset(rng, N, n)
        if n == 1:
            sg, sp = maps1[int(rng.integers(24))]
        elif n == 2:
            sg, sp = maps2[int(rng.integers(11520))]
        else:
            sg, sp = O.random_map(rng, n)
        L = int(rng.integers(1, 10))
        gs = gen.rand_list(rng, L, N)
        ps = rng.integers(0, 4, L)
        eg_map, ep_map = O.map_embed(sg, sp, qubits, N)
        eg, ep = O.map_image_list(eg_map, ep_map, gs, ps)
        case = {"small": [O.show(g, p) for g, p in zip(sg, sp)], "qubits": qubits, "N": N, "ops": [O.show(g, p) for g, p in zip(gs, ps)]}
        small = B.Map(sg.copy(), sp.copy())
        A = B.PauliList(gs.copy(), ps.copy())
        ok, _ = rec.attempt("img.mask", case, lambda: A.transform_by(small, mask=_lib_mask(B, qubits, N)))
        if ok:
            ag, ap = B.gsps(A)
            rec.check("img.mask", np.array_equal(ag, eg) and np.array_equal(ap, ep), case, True,
                      expected=[O.show(g, p) for g, p in zip(eg, ep)], observed=[O.show(g, p) for g, p in zip(ag, ap)])
            out = [c for q in range(N) if q not in qubits for c in (2 * q, 2 * q + 1)]
            rec.check("img.mask.untouched", np.array_equal(ag[:, out], gs[:, out]), case, True)
        # embed() into an identity map, then unmasked application
        ok, big = rec.attempt("embed", case, lambda: B.stabilizer.identity_map(N).embed(small, _lib_mask(B, qubits, N)))
        if ok:
            bg, bp = B.gsps(big)
            rec.check("embed", np.array_equal(bg, eg_map) and np.array_equal(bp, ep_map % 4), case, True,
                      expected=[O.show(g, p) for g, p in zip(eg_map, ep_map)], observed=[O.show(g, p) for g, p in zip(bg, bp)])
            C = B.PauliList(gs.copy(), ps.copy())
            ok2, _ = rec.attempt("img.mask_vs_embed", case, lambda: C.transform_by(big))
            if ok and ok2:
                cg, cp = B.gsps(C)
                rec.check("img.mask_vs_embed", np.array_equal(cg, ag) and np.array_equal(cp, ap), case, True)
            # the register map stays live: embedding again on the same wires replaces the block (signs included), embedding on
            # other wires leaves the earlier block alone
            if ok:
                s2g, s2p = (maps1[int(rng.integers(24))] if n == 1 else maps2[int(rng.integers(11520))] if n == 2 else O.random_map(rng, n))
                ok3, _ = rec.attempt("embed.again", case, lambda: big.embed(B.Map(s2g.copy(), s2p.copy()), _lib_mask(B, qubits, N)))
                if ok3:
                    xg, xp = O.map_embed(s2g, s2p, qubits, N)
                    bg, bp = B.gsps(big)
                    rec.check("embed.again", np.array_equal(bg, xg) and np.array_equal(bp, xp % 4), [case, [O.show(a, b) for a, b in zip(s2g, s2p)]], True,
                              expected=[O.show(g, p) for g, p in zip(xg, xp)], observed=[O.show(g, p) for g, p in zip(bg, bp)])
                    rest = [q for q in range(N) if q not in qubits]
                    if rest and ok3:
                        q3 = [rest[int(rng.integers(len(rest)))]]
                        s3g, s3p = maps1[int(rng.integers(24))]
                        ok4, _ = rec.attempt("embed.again", case, lambda: big.embed(B.Map(s3g.copy(), s3p.copy()), _lib_mask(B, q3, N)))
                        if ok4:
                            yg, yp = O.map_embed(s3g, s3p, q3, N)
                            zg, zp = O.map_compose(xg, xp, yg, yp)     # disjoint wires: the two embeddings commute
                            bg, bp = B.gsps(big)
                            rec.check("embed.again", np.array_equal(bg, zg) and np.array_equal(bp, zp % 4), [case, "other wires", q3], True)
        # masked application on a state and a single Pauli
        P = B.Pauli(gs[0].copy(), int(ps[0]))
        ok, _ = rec.attempt("img.mask.pauli", case, lambda: P.transform_by(small, mask=_lib_mask(B, qubits, N)))
        if ok:
            g1, p1 = B.gp(P)
            rec.check("img.mask.pauli", np.array_equal(g1, eg[0]) and p1 == ep[0], case, True)
        if N <= 5:
            tg, tp, r = O.random_tableau(rng, N)
            S = B.State(tg.copy(), tp.copy(), r)
            ok, _ = rec.attempt("img.mask.state", case, lambda: S.transform_by(small, mask=_lib_mask(B, qubits, N)))
            if ok:
                lg, lp, lr = B.state(S)
                xg, xp = O.map_image_list(eg_map, ep_map, tg, tp)
                rec.check("img.mask.state", np.array_equal(lg, xg) and np.array_equal(lp, xp) and lr == r, case, True)


def structured_map(rng, N):
    """maps with special structure that a generic sampler practically never draws: wire permutations (cycles of every length)
    with signs, CNOT networks (X-type rows stay X-type), diagonal maps (products of S and CZ), Hadamard layers, and their products."""
    kind = int(rng.integers(5))
    gs, ps = O.map_identity(N)
    if kind in (0, 4):
        perm = rng.permutation(N)
        if N >= 3 and rng.integers(2):      # one long cycle
            perm = np.roll(np.arange(N), 1)[rng.permutation(N)] if False else np.roll(np.arange(N), int(rng.integers(1, N)))
        gs = np.zeros((2 * N, 2 * N), dtype=np.int64)
        for k in range(N):
            gs[2 * k, 2 * perm[k]] = 1
            gs[2 * k + 1, 2 * perm[k] + 1] = 1
        ps = 2 * rng.integers(0, 2, 2 * N)
        if kind == 0:
            return gs, ps
    if kind in (1, 4):
        for _ in range(int(rng.integers(1, 2 * N + 1))):
            if N < 2:
                break
            c, t = rng.choice(N, 2, replace=False)
            cn, cp = O.map_identity(N)
            cn[2 * c, 2 * t] = 1
            cn[2 * t + 1, 2 * c + 1] = 1
            gs, ps = O.map_compose(gs, ps, cn, cp)
        return gs, ps % 4
    if kind == 2:
        for q in range(N):
            if rng.integers(2):     # S on q: X -> Y
                sg, sp = O.map_identity(N)
                sg[2 * q, 2 * q + 1] = 1
                gs, ps = O.map_compose(gs, ps, sg, sp)
        for _ in range(int(rng.integers(0, N + 1))):
            if N < 2:
                break
            a, b = rng.choice(N, 2, replace=False)   # CZ: X_a -> X_a Z_b, X_b -> Z_a X_b
            cg, cp = O.map_identity(N)
            cg[2 * a, 2 * b + 1] = 1
            cg[2 * b, 2 * a + 1] = 1
            gs, ps = O.map_compose(gs, ps, cg, cp)
        return gs, ps % 4
    for q in range(N):                # Hadamard layer on a subset
        if rng.integers(2):
            gs[[2 * q, 2 * q + 1]] = gs[[2 * q + 1, 2 * q]]
    return gs, ps


def run_rand(shard, rec, B):
    rng = gen.rng_for(rec)
    Ns = [3, 4, 5, 6, 7, 8] if B.name == "np" else [3, 4, 5]
    for N in (1, 2, 4):     # zero-length lists stay zero-length lists of the same width
        mg, mp = O.random_map(rng, N)
        E = B.PauliList(np.zeros((0, 2 * N), dtype=np.int64), np.zeros(0, dtype=np.int64))
        ok, _ = rec.attempt("img.empty", [N], lambda: E.transform_by(B.Map(mg, mp)))
        if ok:
            rec.check("img.empty", B.np(E.gs).shape == (0, 2 * N) and B.np(E.ps).shape == (0,), ["empty", N], False)
        if N >= 2:
            sm = O.random_map(rng, 1)
            E2 = B.PauliList(np.zeros((0, 2 * N), dtype=np.int64), np.zeros(0, dtype=np.int64))
            ok, _ = rec.attempt("img.empty", [N, "mask"], lambda: E2.transform_by(B.Map(*sm), mask=_lib_mask(B, [N - 1], N)))
            if ok:
                rec.check("img.empty", B.np(E2.gs).shape == (0, 2 * N), ["empty.mask", N], False)
    for t in range(shard["n"]):
        N = Ns[t % len(Ns)]
        mg, mp = O.random_map(rng, N)
        if t % 3 == 1:
            mg, mp = structured_map(rng, N)
            if not O.map_valid(mg, mp):
                rec.inconclusive("structured map invalid")
                continue
            rec.bump("structured_maps")
        L = int(rng.integers(2, 24))
        gs = np.concatenate([gen.rand_list(rng, L, N), np.eye(2 * N, dtype=np.int64)[rng.integers(0, 2 * N, 2)]])
        ps = rng.integers(0, 4, len(gs))
        check_map(rec, B, mg, mp, gs, ps, rng, unitary=(N <= 3 and t % 3 == 0))
        if t % 5 == 0:
            G = gen.rand_nonid(rng, N)
            _rotmap_vs_rot(rec, B, G, 2 * int(rng.integers(2)), gs, ps)
            _rotmap_string_history(rec, B, G if t % 10 else O.s2g("XZ" + "I" * (N - 2)) if N >= 2 else G, 2 * int(rng.integers(2)), rng)
        # state receiver: all rows transformed, r kept, rho' = V rho V^dag
        if t % 4 == 0 and N <= 5:
            tg, tp, r = O.random_tableau(rng, N)
            S = B.State(tg.copy(), tp.copy(), r)
            M = B.Map(mg.copy(), mp.copy())
            ok, _ = rec.attempt("img.state", [N, t], lambda: S.transform_by(M))
            if ok:
                lg, lp, lr = B.state(S)
                xg, xp = O.map_image_list(mg, mp, tg, tp)
                rec.check("img.state", np.array_equal(lg, xg) and np.array_equal(lp, xp) and lr == r, [N, t, "state"], True)
                if N <= 3:
                    V = O.unitary_from_map(mg, mp)
                    rec.check("img.state.dense", O.close(O.rho(lg, lp, lr), V @ O.rho(tg, tp, r) @ V.conj().T), [N, t, "dense"], True)


def run_big(shard, rec, B):
    """wide registers / long lists; maps built by the oracle as products of rotations; table oracle only."""
    rng = gen.rng_for(rec)
    Ns = [16, 31, 32, 33, 63, 64, 65, 70] if B.name == "np" else [16, 33, 65]
    for t in range(shard["n"]):
        for N in Ns:
            mg, mp = O.random_map(rng, N, nrot=N + 5)
            L = [8, gen.BIG_LS[int(rng.integers(len(gen.BIG_LS)))]][int(rng.integers(2))] if B.name == "np" else 8
            gs = rng.integers(0, 2, (L, 2 * N))
            gs[0] = gen.sparse_string(rng, N)
            ps = rng.integers(0, 4, L)
            check_map(rec, B, mg, mp, gs, ps, rng, unitary=False)
            # masked application of a small map on high qubits of the wide register
            n = int(rng.integers(1, 4))
            qubits = sorted(rng.choice(np.arange(N // 2, N), size=n, replace=False).tolist())
            sg, sp = O.random_map(rng, n)
            eg_map, ep_map = O.map_embed(sg, sp, qubits, N)
            eg, ep = O.map_image_list(eg_map, ep_map, gs, ps)
            A = B.PauliList(gs.copy(), ps.copy())
            case = {"N": N, "qubits": qubits, "small": [O.show(a, b) for a, b in zip(sg, sp)], "L": L}
            ok, _ = rec.attempt("img.mask", case, lambda: A.transform_by(B.Map(sg.copy(), sp.copy()), mask=_lib_mask(B, qubits, N)))
            if ok:
                ag, ap = B.gsps(A)
                rec.check("img.mask", np.array_equal(ag, eg) and np.array_equal(ap, ep), case, True)
