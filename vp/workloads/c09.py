"""C09 A circuit acts as the ordered product of its gates."""
import numpy as np

from .. import oracle as O
from .. import gen
from .. import programs as PR
from .. import circ_common as CC

RULE = ("random gate programs (length 1..40, N=1..6; generator gates with and without explicit qubits, set_generator gates, "
        "forward-map gates, backward-map-only gates, named gates, C(k); adversarial shapes: disjoint chains bridged by a "
        "full-support gate, repeated same-qubit gates) run in all configurations {uncompiled, layers compiled, circuit "
        "compiled} x {CliffordCircuit, Circuit} x {built, copy, composed halves} on inputs of every kind (Pauli, list, "
        "polynomial, map, signed mixed state), compared with gate-by-gate application of fresh gates and with the oracle's "
        "composite map; take() traces checked against the layer-order specification; per-gate locality; non-trivial = "
        "program has >=2 gates with overlapping support")
ASSUMPTIONS = ["multi-qubit gates are declared on ascending qubit tuples (CNOT either way)", "circuits are recompiled after compose",
               "gate semantics themselves are pinned by C02/C03/C11; the composite is also checked against the oracle's own composition"]
REQUIRED_SUBS = ["fwd.CliffordCircuit.built.none", "fwd.CliffordCircuit.*.layers", "fwd.CliffordCircuit.*.circuit",
                 "fwd.CliffordCircuit.copy.*", "fwd.CliffordCircuit.composed.*", "fwd.Circuit.built.*", "trace.order", "locality",
                 "ref.oracle", "live.forward", "live.order"]
REQUIRED_CALLS = ["CliffordCircuit.take", "CliffordLayer.take"]


def shards(tier):
    q = tier == "quick"
    out = [
        {"name": "prog.np.interp", "mode": "interp", "backend": "np", "fn": "progs", "n": 50 if q else 1500},
        {"name": "prog.torch", "mode": "jit", "backend": "torch", "fn": "progs", "n": 25 if q else 800},
    ]
    for k in range(4 if q else 10):
        out.append({"name": "prog.np.jit.%d" % k, "mode": "jit", "backend": "np", "fn": "progs", "n": 60 if q else 3000})
    out.append({"name": "live.np.jit", "mode": "jit", "backend": "np", "fn": "live", "n": 120 if q else 6000})
    out.append({"name": "live.np.interp", "mode": "interp", "backend": "np", "fn": "live", "n": 40 if q else 1200})
    out.append({"name": "live.torch", "mode": "jit", "backend": "torch", "fn": "live", "n": 25 if q else 800})
    out.append({"name": "forms.np.jit", "mode": "jit", "backend": "np", "fn": "progs", "n": 30 if q else 1500, "forms": 1})
    out.append({"name": "big.np.jit", "mode": "jit", "backend": "np", "fn": "big", "n": 3 if q else 60})
    out.append({"name": "big.torch", "mode": "jit", "backend": "torch", "fn": "big", "n": 1 if q else 10})
    return out


def run(shard, rec, B):
    from ..monitor import Hooks
    hk = Hooks(rec)
    C = B.circuit
    hk.wrap(C.CliffordCircuit, "take")
    hk.wrap(C.CliffordLayer, "take")
    if hasattr(C, "Circuit"):
        hk.wrap(C.Circuit, "take")
    globals()["run_" + shard["fn"]](shard, rec, B)


def run_progs(shard, rec, B):
    rng = gen.rng_for(rec)
    classes = ["CliffordCircuit"] + (["Circuit"] if hasattr(B.circuit, "Circuit") else [])
    named = B.name == "np"
    for t in range(shard["n"]):
        N = int(rng.integers(1, 7)) if B.name == "np" else int(rng.integers(1, 5))
        length = int(rng.integers(1, 41)) if t % 3 else int(rng.integers(1, 8))
        prog = PR.rand_program(rng, N, length, named=named)
        desc = {"N": N, "program": [PR.describe(s) for s in prog][:40]}
        overl = any(set(a["qubits"]) & set(b["qubits"]) for i, a in enumerate(prog) for b in prog[i + 1:])
        nt = len(prog) >= 2 and overl
        ok, om = rec.attempt("ref.oracle", desc, lambda: PR.program_map(B, prog, N))
        if not ok:
            continue
        ins = CC.inputs(B, N, rng)
        # --- reference 1: fresh gates one at a time in insertion order; per-gate locality
        refs = []
        ok_ref = True
        for item in ins:
            obj = CC.clone_input(B, item)
            for s in prog:
                g = PR.make_gate(B, s, N)
                before = CC.read(B, item[0], obj)
                ok, _ = rec.attempt("ref.gate", {"gate": PR.describe(s), "N": N}, lambda: g.forward(obj))
                if not ok:
                    ok_ref = False
                    break
                after = CC.read(B, item[0], obj)
                out = [c for qb in range(N) if qb not in set(s["qubits"]) for c in (2 * qb, 2 * qb + 1)]
                rec.check("locality", np.array_equal(before[0][:, out], after[0][:, out]), {"gate": PR.describe(s), "N": N, "kind": item[0]},
                          len(s["qubits"]) < N)
            if not ok_ref:
                break
            got = CC.read(B, item[0], obj)
            eg, ep = O.map_image_list(om[0], om[1], item[2], item[3])
            exp = (eg, ep, item[4])
            rec.check("ref.oracle", CC.same(got, exp), dict(desc, kind=item[0], input=CC.show_rows((item[2], item[3], item[4]))), nt,
                      expected=CC.show_rows(exp), observed=CC.show_rows(got))
            refs.append(exp if CC.same(got, exp) else got)
        if not ok_ref:
            continue
        # --- the configurations
        for cls in classes:
            for variant in CC.VARIANTS:
                for comp in CC.COMPILE:
                    sub = "fwd.%s.%s.%s" % (cls, variant, comp)
                    ok, res = rec.attempt(sub, desc, lambda: CC.configure(B, cls, prog, N, variant, comp))
                    if not ok or res[0] is None:
                        continue
                    circ, gates = res
                    if gates is not None:
                        bad, pos = PR.check_layering(circ, gates)
                        rec.check("trace.order", not bad, dict(desc, cls=cls, variant=variant), nt, observed=bad[:4])
                    for item, ref in zip(ins, refs):
                        obj = CC.clone_input(B, item)
                        ok, R = rec.attempt(sub, dict(desc, kind=item[0]), lambda: circ.forward(obj))
                        if ok:
                            got = CC.read(B, item[0], obj)
                            rec.check(sub, CC.same(got, ref) and R is obj, dict(desc, kind=item[0], input=CC.show_rows((item[2], item[3], item[4]))),
                                      nt, expected=CC.show_rows(ref), observed=CC.show_rows(got))
                    # running twice gives the same action (no state leaks between runs)
                    if comp != "none" and ins:
                        item, ref = ins[1], refs[1]
                        obj = CC.clone_input(B, item)
                        ok, _ = rec.attempt(sub + ".again", desc, lambda: circ.forward(obj))
                        if ok:
                            rec.check("fwd.again", CC.same(CC.read(B, item[0], obj), ref), dict(desc, cls=cls, variant=variant, comp=comp), nt)


def run_live(shard, rec, B):
    """ONE circuit object grown in stages: gates are taken, the circuit is compiled (layers or whole), run, grown again,
    recompiled (the documented requirement after a change), run again, copied, run again... every stage is compared with
    the oracle's composite of all gates taken so far. Stale compiled maps / caches must not survive a recompilation."""
    rng = gen.rng_for(rec)
    classes = ["CliffordCircuit"] + (["Circuit"] if hasattr(B.circuit, "Circuit") else [])
    named = B.name == "np"
    for t in range(shard["n"]):
        N = int(rng.integers(2, 7)) if B.name == "np" else int(rng.integers(2, 5))
        cls = classes[t % len(classes)]
        if t % 5 == 0:
            compose_history(rec, B, rng, N, named)
            wider_register(rec, B, rng, N, named)
            moved_gate(rec, B, rng, N)
            placed_gate(rec, B, rng, N, cls)
            refusals(rec, B, rng, N, named)
        circ = CC.new_circuit(B, cls, N)
        prog, inserted = [], []
        hist = []
        compiled = None
        for stage in range(int(rng.integers(2, 6))):
            for _ in range(int(rng.integers(1, 5))):
                s = PR.rand_spec(rng, N, named=named)
                if rng.integers(3) == 0:   # a wide gate, so that later narrow gates can sit strictly inside its support
                    qs = gen.rand_subset(rng, N, min(N, int(rng.integers(3, 5))))
                    s = {"kind": "fmap", "mg": None, "mp": None, "qubits": qs}
                    s["mg"], s["mp"] = O.random_map(rng, len(qs))
                g = PR.make_gate(B, s, N)
                ok, _ = rec.attempt("live.take", PR.describe(s), lambda: circ.take(g))
                if not ok:
                    break
                prog.append(s)
                inserted.append(g)
                hist.append(["take", PR.describe(s)["kind"], s["qubits"]])
            # a generator gate that is already in the circuit gets a new generator through the public setter
            gen_idx = [i for i, s_ in enumerate(prog) if s_["kind"] in ("setgen",)]
            if gen_idx and rng.integers(3) == 0:
                i_ = gen_idx[int(rng.integers(len(gen_idx)))]
                newG = gen.rand_nonid(rng, len(prog[i_]["qubits"]))
                newP = 2 * int(rng.integers(2))
                ok, _ = rec.attempt("live.retarget", hist[-6:], lambda: inserted[i_].set_generator(B.Pauli(newG, newP)))
                if ok:
                    prog[i_] = dict(prog[i_], G=newG, PG=newP)
                    hist.append(["set_generator", i_])
                    if compiled is None:
                        pass
            action = int(rng.integers(4))
            if gen_idx and compiled is not None and hist and hist[-1][0] == "set_generator" and action in (0, 3):
                action = 1 if compiled == "circuit" else 2     # documented: recompile after changing a compiled circuit
            if action == 1 or (compiled == "circuit" and action != 2):
                ok, _ = rec.attempt("live.compile", hist[-6:], (lambda: circ.compile(N)) if cls == "CliffordCircuit" else (lambda: circ.compile()))
                compiled = "circuit"
                hist.append(["compile"])
            elif action == 2 or compiled == "layers":
                for layer in circ.layers_forward():
                    layer.compile(N)
                if compiled == "circuit":   # whole-circuit maps are stale after growth: recompile them as documented
                    (circ.compile(N) if cls == "CliffordCircuit" else circ.compile())
                else:
                    compiled = "layers"
                hist.append(["compile layers"])
            if action == 3 and hasattr(circ, "copy") and B.name == "np":
                circ2 = circ.copy()
                hist.append(["copy"])
                run_c = circ2
            else:
                run_c = circ
            if N >= 2 and rng.integers(3) == 0:
                # a call the library may refuse (operand on fewer qubits than the circuit needs): whatever happens to that
                # operand, the circuit itself must go on acting as before
                small = B.PauliList(gen.rand_list(rng, 2, N - 1), rng.integers(0, 4, 2))
                how = "forward" if rng.integers(2) else "backward"
                try:
                    getattr(run_c, how)(small)
                    rec.bump("ill_sized_calls_answered")
                except Exception as e:
                    rec.refusal("ill-sized operand: " + type(e).__name__)
                hist.append(["ill-sized " + how])
            desc = {"N": N, "cls": cls, "program": [PR.describe(x) for x in prog][-12:], "history": hist[-10:], "stage": stage}
            if run_c is circ:
                bad, pos = PR.check_layering(circ, inserted)
                rec.check("live.order", not bad, desc, len(prog) > 2, observed=bad[:4])
            om = PR.program_map(B, prog, N)
            for item in CC.inputs(B, N, rng, kinds=("list", "state")):
                obj = CC.clone_input(B, item)
                ok, _ = rec.attempt("live.forward", desc, lambda: run_c.forward(obj))
                if ok:
                    got = CC.read(B, item[0], obj)
                    eg, ep = O.map_image_list(om[0], om[1], item[2], item[3])
                    rec.check("live.forward", CC.same(got, (eg, ep, item[4])), dict(desc, kind=item[0]), len(prog) > 1,
                              expected=CC.show_rows((eg, ep, item[4])), observed=CC.show_rows(got))
                    ok, _ = rec.attempt("live.backward", desc, lambda: run_c.backward(obj))
                    if ok:
                        back = CC.read(B, item[0], obj)
                        rec.check("live.backward", CC.same(back, (item[2], item[3], item[4])), dict(desc, kind=item[0]), len(prog) > 1)


def run_big(shard, rec, B):
    """wide registers (N up to 130, around word-size thresholds): small gates placed on low, middle and high qubits so that
    overlaps happen only on high qubits; all 9 CliffordCircuit configurations + Circuit; oracle = gate maps applied row by row."""
    rng = gen.rng_for(rec)
    classes = ["CliffordCircuit"] + (["Circuit"] if hasattr(B.circuit, "Circuit") else [])
    Ns = [33, 64, 65, 66, 70, 129, 130] if B.name == "np" else [33, 66]
    for t in range(shard["n"]):
        for N in Ns:
            prog, hot = PR.wide_program(rng, N)
            desc = {"N": N, "program": [{"kind": s["kind"], "qubits": s["qubits"]} for s in prog]}
            L = 6
            gs = np.stack([gen.sparse_string(rng, N, 3) for _ in range(L)])
            for j in range(L):
                for q in rng.choice(hot, size=2, replace=False):
                    gs[j, 2 * q:2 * q + 2] = rng.integers(0, 2, 2)
            ps = rng.integers(0, 4, L)
            eg, ep = gs.copy(), ps.copy()
            for s in prog:
                mg, mp = PR.spec_map(s, N)
                eg, ep = O.map_image_list(mg, mp, eg, ep)
            for cls in classes:
                for variant in CC.VARIANTS:
                    for comp in (CC.COMPILE if N <= 70 else ("none", "layers")):
                        sub = "fwd.%s.%s.%s" % (cls, variant, comp)
                        ok, res = rec.attempt(sub, desc, lambda: CC.configure(B, cls, prog, N, variant, comp))
                        if not ok or res[0] is None:
                            continue
                        circ, gates = res
                        if gates is not None:
                            bad, pos = PR.check_layering(circ, gates)
                            rec.check("trace.order", not bad, dict(desc, cls=cls, variant=variant), True, observed=bad[:4])
                        obj = B.PauliList(gs.copy(), ps.copy())
                        ok, _ = rec.attempt(sub, desc, lambda: circ.forward(obj))
                        if ok:
                            lg, lp = B.gsps(obj)
                            rec.check(sub, np.array_equal(lg, eg) and np.array_equal(lp, ep % 4), dict(desc, cls=cls, variant=variant, comp=comp), True)


def _act(B, prog, N, gs, ps):
    om = PR.program_map(B, prog, N)
    return O.map_image_list(om[0], om[1], gs, ps)


def compose_history(rec, B, rng, N, named):
    """E.compose(Bc) for an empty or non-empty E, then E keeps growing (and is compiled): the argument circuit Bc must go on
    acting as its own gates only, and E as the concatenation."""
    pe = [] if rng.integers(2) else PR.rand_program(rng, N, int(rng.integers(1, 4)), named=named)
    pb = PR.rand_program(rng, N, int(rng.integers(1, 6)), named=named)
    more = PR.rand_program(rng, N, int(rng.integers(1, 5)), named=named)
    E, _ = CC.build(B, "CliffordCircuit", pe, N) if pe else (CC.new_circuit(B, "CliffordCircuit", N), [])
    Bc, _ = CC.build(B, "CliffordCircuit", pb, N)
    desc = {"N": N, "E": [PR.describe(s)["kind"] for s in pe], "B": [PR.describe(s) for s in pb], "then": [PR.describe(s) for s in more]}
    # the argument may itself have been compiled (whole, or layer by layer) before it is composed into E
    pre = ("none", "circuit", "layers")[int(rng.integers(3))]
    desc["argument_compiled"] = pre
    if pre == "circuit":
        Bc.compile(N)
    elif pre == "layers":
        for layer in Bc.layers_forward():
            layer.compile(N)
    ok, _ = rec.attempt("compose.history", desc, lambda: E.compose(Bc))
    if not ok:
        return
    for s_ in more:
        E.take(PR.make_gate(B, s_, N))
    if rng.integers(2):
        E.compile(N)
    gs, ps = gen.rand_list(rng, 5, N), rng.integers(0, 4, 5)
    for nm, circ, pr in (("argument", Bc, pb), ("result", E, pe + pb + more)):
        obj = B.PauliList(gs.copy(), ps.copy())
        ok, _ = rec.attempt("compose.history", desc, lambda: circ.forward(obj))
        if ok:
            eg, ep = _act(B, pr, N, gs, ps)
            lg, lp = B.gsps(obj)
            rec.check("compose.history", np.array_equal(lg, eg) and np.array_equal(lp, ep % 4), dict(desc, observed_circuit=nm), True,
                      expected=[O.show(a, b) for a, b in zip(eg, ep)], observed=[O.show(a, b) for a, b in zip(lg, lp)])


def wider_register(rec, B, rng, N, named):
    """a circuit built for N qubits applied to objects on N+k qubits: uncompiled, and compiled with the explicit size compile(N+k)."""
    prog = PR.rand_program(rng, N, int(rng.integers(1, 7)), named=named)
    W = N + int(rng.integers(1, 3))
    gs, ps = gen.rand_list(rng, 5, W), rng.integers(0, 4, 5)
    # the oracle reads the same program on the wider register (full-register generators are padded with identities)
    wprog = [dict(s_, G=np.concatenate([np.asarray(s_["G"]), np.zeros(2 * (W - N), dtype=np.int64)])) if s_["kind"] == "gen" else s_ for s_ in prog]
    eg, ep = _act(B, wprog, W, gs, ps)
    desc = {"N": N, "applied_to": W, "program": [PR.describe(s) for s in prog]}
    for comp in ("none", "compile(W)"):
        circ, _ = CC.build(B, "CliffordCircuit", prog, N)
        if comp != "none":
            ok, _ = rec.attempt("wider." + comp, desc, lambda: circ.compile(W))
            if not ok:
                continue
        obj = B.PauliList(gs.copy(), ps.copy())
        ok, _ = rec.attempt("wider." + comp, desc, lambda: circ.forward(obj))
        if ok:
            lg, lp = B.gsps(obj)
            rec.check("wider." + comp, np.array_equal(lg, eg) and np.array_equal(lp, ep % 4), dict(desc, comp=comp), True)


def moved_gate(rec, B, rng, N):
    """a local gate of a compiled circuit is moved to other free qubits of its layer (gate.qubits is a plain public attribute) and
    the circuit is recompiled as documented: the action is the product over the layer structure as it now stands."""
    if N < 3:
        return
    prog = PR.rand_program(rng, N, int(rng.integers(2, 7)), kinds=["setgen", "fmap", "bmap"], named=False)
    circ, gates = CC.build(B, "CliffordCircuit", prog, N)
    comp = ("circuit", "layers")[int(rng.integers(2))]

    def compile_():
        if comp == "circuit":
            circ.compile(N)
        else:
            for layer in circ.layers_forward():
                layer.compile(N)
    ok, _ = rec.attempt("live.move", [N, comp], compile_)
    if not ok:
        return
    layers = list(circ.layers_forward())
    cands = []
    for layer in layers:
        for g in layer.gates:
            used = set(q for h in layer.gates if h is not g for q in h.qubits)
            free = [q for q in range(N) if q not in used]
            if len(free) > len(g.qubits):
                cands.append((g, free))
    if not cands:
        return
    g, free = cands[int(rng.integers(len(cands)))]
    old = tuple(g.qubits)
    for _ in range(20):
        new = tuple(sorted(int(q) for q in rng.choice(free, size=len(old), replace=False)))
        if new != old:
            break
    else:
        return
    i = [k for k, h in enumerate(gates) if h is g][0]
    g.qubits = new
    prog[i] = dict(prog[i], qubits=list(new))
    ok, _ = rec.attempt("live.move", [N, comp, "recompile"], compile_)
    if not ok:
        return
    # oracle: layers in order, gates of a layer in any order (they are disjoint)
    mg, mp = O.map_identity(N)
    for layer in circ.layers_forward():
        for h in layer.gates:
            k = [j for j, x in enumerate(gates) if x is h][0]
            hg, hp = PR.spec_map_any(B, prog[k], N)
            mg, mp = O.map_compose(mg, mp, hg, hp)
    desc = {"N": N, "compiled": comp, "program": [PR.describe(x) for x in prog], "moved": [i, list(old), list(new)]}
    for item in CC.inputs(B, N, rng, kinds=("list", "state")):
        obj = CC.clone_input(B, item)
        ok, _ = rec.attempt("live.move", desc, lambda: circ.forward(obj))
        if ok:
            got = CC.read(B, item[0], obj)
            eg, ep = O.map_image_list(mg, mp, item[2], item[3])
            rec.check("live.move", CC.same(got, (eg, ep, item[4])), dict(desc, kind=item[0]), True,
                      expected=CC.show_rows((eg, ep, item[4])), observed=CC.show_rows(got))


def placed_gate(rec, B, rng, N, cls):
    """gates are built for one set of qubits and placed on another of the same width (gate.qubits is a plain public attribute)
    BEFORE the circuit takes them: layer packing, and the action with and without compiling, follow where the gates are now."""
    prog = PR.rand_program(rng, N, int(rng.integers(2, 7)), kinds=["setgen", "fmap", "bmap"], named=False)
    circ = CC.new_circuit(B, cls, N)
    moved = []
    for s_ in prog:
        w = len(s_["qubits"])
        first = [int(q) for q in rng.choice(N, size=w, replace=False)]
        g = PR.make_gate(B, dict(s_, qubits=first), N)
        g.qubits = tuple(int(q) for q in s_["qubits"])
        moved.append([first, list(s_["qubits"])])
        ok, _ = rec.attempt("placed.take", [N, cls, moved], lambda: circ.take(g))
        if not ok:
            return
    gs, ps = gen.rand_list(rng, 6, N), rng.integers(0, 4, 6)
    eg, ep = _act(B, prog, N, gs, ps)
    desc = {"N": N, "cls": cls, "program": [PR.describe(x) for x in prog], "built_on -> placed_on": moved}
    for comp in ("none", "compiled"):
        if comp == "compiled":
            ok, _ = rec.attempt("placed.compile", desc, (lambda: circ.compile(N)) if cls == "CliffordCircuit" else (lambda: circ.compile()))
            if not ok:
                return
        obj = B.PauliList(gs.copy(), ps.copy())
        ok, _ = rec.attempt("placed." + comp, desc, lambda: circ.forward(obj))
        if ok:
            lg, lp = B.gsps(obj)
            rec.check("placed." + comp, np.array_equal(lg, eg) and np.array_equal(lp, ep % 4), desc, True,
                      expected=[O.show(a, b) for a, b in zip(eg, ep)], observed=[O.show(a, b) for a, b in zip(lg, lp)])


def refusals(rec, B, rng, N, named):
    """gates on qubits the circuit does not have, and circuits of another size: when the library refuses them, the refusing circuit
    goes on acting as the gates it already holds."""
    prog = PR.rand_program(rng, N, int(rng.integers(1, 5)), named=named)
    for cls in ["CliffordCircuit"] + (["Circuit"] if hasattr(B.circuit, "Circuit") else []):
        circ, _ = CC.build(B, cls, prog, N)
        bad = B.circuit.CliffordGate(*(list(range(max(0, N - 2), N - 1)) + [N + int(rng.integers(0, 2))]))
        bad.set_forward_map(B.Map(*O.random_map(rng, bad.n)))
        tries = [("take", lambda: circ.take(bad)), ("gate", lambda: circ.gate(0, N))]
        if cls == "CliffordCircuit":
            other, _ = CC.build(B, cls, prog[:1], N)
            other.N = N        # same class, built for another register size below
            wide = CC.new_circuit(B, cls, N + 1)
            tries.append(("compose", lambda: circ.compose(wide)))
        accepted = False
        for what, call in tries:
            # C09 does not say that ill-formed additions must be refused (the torch port accepts them): only what holds AFTER a refusal is judged
            try:
                call()
                accepted = True
                rec.bump("ill_formed_additions_accepted")
            except Exception as e:
                rec.refusal("%s:%s" % (type(e).__name__, what))
        if accepted:
            continue
        gs, ps = gen.rand_list(rng, 4, N), rng.integers(0, 4, 4)
        obj = B.PauliList(gs.copy(), ps.copy())
        ok, _ = rec.attempt("reject.then_forward", [N, cls], lambda: circ.forward(obj))
        if ok:
            eg, ep = _act(B, prog, N, gs, ps)
            lg, lp = B.gsps(obj)
            rec.check("reject.then_forward", np.array_equal(lg, eg) and np.array_equal(lp, ep % 4), {"N": N, "cls": cls, "program": [PR.describe(x) for x in prog]}, True)
