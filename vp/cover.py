"""Line-coverage monitor (sys.monitoring, Python 3.12+): which lines of the tree under test were executed while the
monitors were watching. Each line location reports once and is then switched off (DISABLE), so the cost is negligible.
Under JIT the bodies of @njit kernels run as machine code and do not report; the interpreted shards cover them."""
import os
import sys

_seen = {}
_root = None
TOOL = None


def start(repo):
    global _root, TOOL
    mon = getattr(sys, "monitoring", None)
    if mon is None:
        return False
    _root = os.path.realpath(repo) + os.sep
    TOOL = mon.COVERAGE_ID
    try:
        mon.use_tool_id(TOOL, "vp-cover")
    except ValueError:
        return False
    cache = {}

    def on_line(code, line):
        fn = code.co_filename
        rel = cache.get(fn)
        if rel is None:
            real = os.path.realpath(fn) if not fn.startswith("<") else fn
            rel = real[len(_root):] if real.startswith(_root) else ""
            if rel.startswith(("pyclifford/tests", "torchclifford/tests")):
                rel = ""
            cache[fn] = rel
        if rel:
            _seen.setdefault(rel, set()).add(line)
        return mon.DISABLE

    mon.register_callback(TOOL, mon.events.LINE, on_line)
    mon.set_events(TOOL, mon.events.LINE)
    return True


def result():
    return {k: sorted(v) for k, v in _seen.items()}


def executable_lines(path):
    """line numbers that carry code, from the compiled module's code objects (docstring-only lines excluded by the compiler)."""
    with open(path) as f:
        src = f.read()
    out = set()
    todo = [compile(src, path, "exec")]
    while todo:
        co = todo.pop()
        for _, _, ln in co.co_lines():
            if ln is not None and ln > 0:
                out.add(ln)
        for c in co.co_consts:
            if hasattr(c, "co_lines"):
                todo.append(c)
    return out


def functions(path):
    """(qualified name, first line, last line) of every def in the file."""
    import ast
    with open(path) as f:
        tree = ast.parse(f.read())
    out = []

    def walk(node, prefix):
        for ch in ast.iter_child_nodes(node):
            if isinstance(ch, (ast.FunctionDef, ast.AsyncFunctionDef)):
                out.append((prefix + ch.name, ch.lineno, ch.end_lineno))
                walk(ch, prefix + ch.name + ".")
            elif isinstance(ch, ast.ClassDef):
                walk(ch, prefix + ch.name + ".")
            else:
                walk(ch, prefix)
    walk(tree, "")
    return out
