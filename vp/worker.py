"""One shard of one property's workload, in its own interpreter.
usage: python -m vp.worker <PROP> <shard-json> <out-file>
"""
import importlib
import json
import os
import sys
import time
import traceback
import faulthandler


def main():
    faulthandler.enable()
    prop, shard_json, out = sys.argv[1], sys.argv[2], sys.argv[3]
    shard = json.loads(shard_json)
    from . import env, monitor, oracle, cover
    cover.start(os.environ.get("VP_REPO", "/repo"))
    seed = int(os.environ.get("VERIF_SEED", "0"))
    tier = os.environ.get("VERIF_TIER", "quick")
    rec = monitor.Recorder(prop, shard["name"], shard.get("backend", "np"), env.mode(), seed, tier)
    res = None
    try:
        bad = oracle.self_test()
        if bad:
            rec.inconclusive("oracle self-test failed: %s" % bad)
        from . import backends
        B = backends.get(shard.get("backend", "np"))
        if shard.get("backend") == "both":
            B = (backends.get("np"), backends.get("torch"))
        env.seed_all(seed * 1000003 + shard.get("salt", 0))
        if shard.get("forms"):
            import numpy as _np
            for b in (B if isinstance(B, tuple) else (B,)):
                type(b).flavours = _np.random.default_rng([seed, 4242, shard.get("salt", 0)])
        if shard.get("dtypes"):
            import numpy as _np
            backends.NP.dtypes = _np.random.default_rng([seed, 777, shard.get("salt", 0)])
            rec.lenient = True
            if env.mode() == "jit":
                pool = [t for t in backends.NP.DTYPES if t is not _np.int64]
                backends.NP.DTYPES = (pool[(seed + shard.get("salt", 0)) % len(pool)], _np.int64)
            rec.note("element_types", [_np.dtype(t).name for t in backends.NP.DTYPES])
        if shard.get("pyopt"):
            rec.note("python_optimize", sys.flags.optimize)
            if not sys.flags.optimize:
                rec.inconclusive("pyopt shard did not run with -O")
        hooks = []
        if not shard.get("no_hooks"):
            for b in (B if isinstance(B, tuple) else (B,)):
                hooks.append(monitor.install_state_invariant(b.stabilizer, rec, b.np))
        mod = importlib.import_module("vp.workloads." + prop.lower())
        t0 = time.time()
        mod.run(shard, rec, B)
        rec.note("workload_s", time.time() - t0)
        if shard.get("forms") or shard.get("dtypes"):
            rec.note("array_forms_handed_to_library", {"np": dict(backends.NP.flavour_counts), "torch": dict(backends.TORCH.flavour_counts)})
    except BaseException as e:
        tb = traceback.extract_tb(e.__traceback__)
        repo = os.path.realpath(os.environ.get("VP_REPO", "/repo")) + os.sep
        inner = tb[-1] if tb else None
        if getattr(rec, "lenient", False) and isinstance(e, Exception):
            # element-type shard: the library may refuse a type it does not support; only answers are judged
            rec.refusal("uncaught.%s" % type(e).__name__)
            rec.note("shard_ended_by_refusal", "%s: %s" % (type(e).__name__, str(e)[:200]))
        elif inner is not None and os.path.realpath(inner.filename).startswith(repo) and isinstance(e, Exception):
            # the library itself raised on a well-formed input outside a guarded call: that is an observation
            # about the library (the property promises a result), and the rest of this shard is lost
            where = ["%s:%d %s" % (os.path.basename(f.filename), f.lineno, f.name) for f in tb[-4:]]
            rec.violation("uncaught.%s" % type(e).__name__, {"where": where}, expected="a result",
                          observed="%s: %s" % (type(e).__name__, str(e)[:300]), tags={"exception": type(e).__name__})
            rec.inconclusive("shard aborted by a library exception (reported as violation): %s" % where[-1])
        else:  # harness failure: inconclusive, never a verdict on the library
            rec.inconclusive("worker crashed: %s: %s\n%s" % (type(e).__name__, e, traceback.format_exc()[-1500:]))
    res = rec.result()
    res["lines"] = cover.result()
    try:
        import numpy
        numpy.array(sorted(rec.nontrivial), dtype=numpy.uint64).tofile(out + ".dig")
    except Exception:
        pass
    tmp = out + ".tmp"
    with open(tmp, "w") as f:
        json.dump(res, f)
    os.replace(tmp, out)


if __name__ == "__main__":
    main()
