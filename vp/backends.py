"""Adapters that let one workload drive pyclifford (numpy/numba) or torchclifford (torch)
through the same calls and read results back as canonical int64 numpy arrays (phases mod 4).

Objects are built by attribute assignment after the narrowest possible constructor call, so
that the adapters do not depend on constructor conveniences that are themselves under test.
"""
import numpy as np

from . import env


class Backend(object):
    name = None

    def __init__(self):
        self.lib = env.load(self.name)
        import importlib
        pk = self.lib.__name__
        self.utils = importlib.import_module(pk + ".utils")
        self.paulialg = importlib.import_module(pk + ".paulialg")
        self.stabilizer = importlib.import_module(pk + ".stabilizer")
        self.circuit = importlib.import_module(pk + ".circuit")

    # --- conversions
    def arr(self, x):
        raise NotImplementedError

    def np(self, x):
        raise NotImplementedError

    def ph(self, x):
        return np.asarray(np.round(self.npf(x))).astype(np.int64) % 4

    # --- builders
    def Pauli(self, g, p=0):
        P = self.paulialg.Pauli(self.arr(g))
        P.p = self.scalar_phase(p)
        return P

    def PauliList(self, gs, ps=None):
        gs = np.asarray(gs)
        if gs.ndim != 2:
            gs = gs.reshape(len(gs), -1)
        L = self.paulialg.PauliList(self.arr(gs))
        L.ps = self.arr(np.zeros(len(gs), dtype=np.int64) if ps is None else np.asarray(ps))
        return L

    def Poly(self, gs, ps, cs):
        gs = np.asarray(gs)
        if gs.ndim != 2:
            gs = gs.reshape(len(gs), -1)
        P = self.paulialg.PauliPolynomial(self.arr(gs))
        P.ps = self.arr(np.asarray(ps))
        P.cs = self.carr(cs)
        return P

    def Map(self, gs, ps):
        M = self.stabilizer.CliffordMap(self.arr(np.asarray(gs)))
        M.ps = self.arr(np.asarray(ps))
        return M

    def State(self, gs, ps, r):
        S = self.stabilizer.StabilizerState(self.arr(np.asarray(gs)))
        S.ps = self.arr(np.asarray(ps))
        S.r = int(r)
        return S

    def freeze(self, obj):
        """mark the arrays of a library object read-only (a constant the caller does not want written to); numpy only."""
        for a in ("g", "gs", "ps", "cs"):
            v = getattr(obj, a, None)
            if isinstance(v, np.ndarray):
                if not v.flags.owndata:
                    v = v.copy()
                    setattr(obj, a, v)
                v.flags.writeable = False
        return obj

    # --- readers
    def gp(self, P):
        return self.np(P.g), int(self.ph(P.p))

    def gsps(self, L):
        return self.np(L.gs), self.ph(L.ps)

    def state(self, S):
        r = S.r
        try:
            r = r.item()
        except AttributeError:
            pass
        return self.np(S.gs), self.ph(S.ps), r


class NP(Backend):
    name = "np"
    tol = 1e-9

    flavours = None   # when set (a numpy Generator), every array handed to the library gets a random legal form
    flavour_counts = {}

    dtypes = None     # when set (a numpy Generator), every array handed to the library gets a random element type
    DTYPES = (np.uint8, np.int8, np.int16, np.int32, np.uint32, np.uint64, np.float64, np.float32, np.int64)

    def arr(self, x):
        a = np.array(x, dtype=np.int64)
        if a.ndim == 0 or a.size == 0:
            return a
        if self.dtypes is not None:
            # binary strings and phases 0..3 are exactly representable in every integer / float type; the library's own helpers
            # hand out uint8 (binary_repr) and float arrays. bool is left out: the unchanged tree itself mis-multiplies bool
            # strings (x + z saturates), so bool is not a form it supports. A refusal (exception) is accepted in these shards.
            dt = self.DTYPES[int(self.dtypes.integers(len(self.DTYPES)))]
            a = a.astype(dt)
            name = "dtype-" + np.dtype(dt).name
            self.flavour_counts[name] = self.flavour_counts.get(name, 0) + 1
        if self.flavours is None:
            return a
        # memory layouts (the library itself hands out such views, e.g. L[::2], L[::-1], inverse())
        k = int(self.flavours.integers(2, 6)) if self.flavours.integers(4) else 0
        name = ["int64-C", "", "fortran", "strided-view", "negative-step-view", "offset-view"][k]
        self.flavour_counts[name] = self.flavour_counts.get(name, 0) + 1
        if k == 5:   # a window into a larger buffer along the first axis
            big = np.zeros((a.shape[0] + 2,) + a.shape[1:], dtype=a.dtype)
            big[1:-1] = a
            return big[1:-1]
        if k == 2 and a.ndim == 2:
            return np.asfortranarray(a)
        if k == 3:   # every second element of a wider buffer along the last axis
            big = np.zeros(a.shape[:-1] + (2 * a.shape[-1],), dtype=a.dtype)
            big[..., ::2] = a
            return big[..., ::2]
        if k == 4:
            return a[..., ::-1].copy()[..., ::-1]
        return a

    def carr(self, x):
        return np.array(x, dtype=np.complex128)

    def np(self, x):
        a = np.asarray(x)
        if a.dtype.kind == 'f':
            return np.round(a).astype(np.int64)
        return a.astype(np.int64)

    def npf(self, x):
        return np.asarray(x)

    def scalar_phase(self, p):
        return int(p)

    def cnp(self, x):
        return np.asarray(x).astype(np.complex128)


class TORCH(Backend):
    name = "torch"
    tol = 1e-5  # complex64 arithmetic inside the port

    def __init__(self):
        import torch
        self.torch = torch
        torch.set_num_threads(1)
        Backend.__init__(self)

    flavours = None
    flavour_counts = {}

    def arr(self, x):
        t = self.torch.tensor(np.asarray(x, dtype=np.float32), dtype=self.torch.float32)
        if self.flavours is None or t.dim() == 0 or t.numel() == 0:
            return t
        k = int(self.flavours.integers(1, 4)) if self.flavours.integers(3) else 0
        name = ["contiguous", "strided-view", "transposed-storage", "offset-view"][k]
        self.flavour_counts[name] = self.flavour_counts.get(name, 0) + 1
        if k == 1:     # every second element of a wider buffer along the last axis
            big = self.torch.zeros(tuple(t.shape[:-1]) + (2 * t.shape[-1],), dtype=self.torch.float32)
            big[..., ::2] = t
            return big[..., ::2]
        if k == 2 and t.dim() == 2:   # same values, column-major storage
            return t.t().contiguous().t()
        if k == 3:
            big = self.torch.zeros((t.shape[0] + 2,) + tuple(t.shape[1:]), dtype=self.torch.float32)
            big[1:-1] = t
            return big[1:-1]
        return t

    def carr(self, x):
        return self.torch.tensor(np.asarray(x, dtype=np.complex64), dtype=self.torch.complex64)

    def np(self, x):
        if self.torch.is_tensor(x):
            x = x.detach().cpu().numpy()
        a = np.asarray(x)
        if a.dtype.kind in 'fc':
            return np.round(np.real(a)).astype(np.int64)
        return a.astype(np.int64)

    def npf(self, x):
        if self.torch.is_tensor(x):
            x = x.detach().cpu().numpy()
        return np.real(np.asarray(x))

    def scalar_phase(self, p):
        return int(p)

    def cnp(self, x):
        if self.torch.is_tensor(x):
            x = x.detach().cpu().numpy()
        return np.asarray(x).astype(np.complex128)


_cache = {}


def get(name):
    if name not in _cache:
        _cache[name] = NP() if name == "np" else TORCH()
    return _cache[name]
