"""Process environment for the checks: which repository tree is imported, how
it is run (JIT / interpreted / torch), seeding of every RNG stream.

Nothing here imports the library at module import time; `load()` does, after
sys.path has been pointed at the tree under test, and asserts that the modules
really come from there (no stale installed copy, no bytecode cache).
"""
import os
import sys

VERIF = os.path.dirname(os.path.dirname(os.path.abspath(__file__)))
REPO = os.environ.get("VP_REPO", "/repo")
PYTHON = os.environ.get("VP_PYTHON", "/venv/bin/python")


def child_env(mode, seed):
    """Environment of a worker process. mode in {'jit','interp'}."""
    e = dict(os.environ)
    e["PYTHONHASHSEED"] = "0"
    e["PYTHONDONTWRITEBYTECODE"] = "1"
    e["PYTHONPATH"] = VERIF
    e["VP_REPO"] = REPO
    e["VERIF_SEED"] = str(seed)
    e["HONGYEHU_PYCLIFFORD_VERIF"] = "1"
    e["OMP_NUM_THREADS"] = "1"
    e["MKL_NUM_THREADS"] = "1"
    e["OPENBLAS_NUM_THREADS"] = "1"
    e["NUMBA_NUM_THREADS"] = "1"
    e["NUMBA_BOUNDSCHECK"] = "1"
    e.pop("NUMBA_DISABLE_JIT", None)
    if mode == "interp":
        e["NUMBA_DISABLE_JIT"] = "1"
    e["VP_MODE"] = mode
    return e


_loaded = {}


def load(backend="np"):
    """Import pyclifford ('np') or torchclifford ('torch') from the tree under test."""
    if backend in _loaded:
        return _loaded[backend]
    repo = os.environ.get("VP_REPO", "/repo")
    if sys.path[0] != repo:
        sys.path.insert(0, repo)
    import importlib
    name = "pyclifford" if backend == "np" else "torchclifford"
    mod = importlib.import_module(name)
    where = os.path.realpath(os.path.dirname(mod.__file__))
    want = os.path.realpath(os.path.join(repo, name))
    if where != want:
        raise RuntimeError("library imported from %s, expected %s" % (where, want))
    _loaded[backend] = mod
    return mod


def mode():
    return os.environ.get("VP_MODE", "jit")


def seed_all(seed):
    """Seed numpy's global generator, numba's generator (JIT mode) and torch's."""
    import numpy
    numpy.random.seed(seed % (2 ** 32))
    if mode() == "jit":
        try:
            from numba import njit

            @njit
            def _seed(s):
                numpy.random.seed(s)
            _seed(seed % (2 ** 32))
        except Exception:
            pass
    if "torch" in sys.modules:
        import torch
        torch.manual_seed(seed)
