"""Shards a property's workload into worker subprocesses, aggregates what the monitors
observed, applies the known-findings file, writes evidence and replay files, sets the exit code.

exit 0  held on everything observed (KNOWN-FINDING lines allowed)
exit 1  at least one violation not explained by a listed known finding (VIOLATION line)
exit 2  inconclusive (harness problem, deciding monitor never reached, worker died/timed out)
"""
import argparse
import fnmatch
import importlib
import json
import os
import shutil
import subprocess
import sys
import tempfile
import time

import numpy as np

from . import env, known


def _launch(prop, shard, out, seed, tier, workdir):
    e = env.child_env(shard.get("mode", "jit"), seed)
    e["VERIF_TIER"] = tier
    e["NUMBA_CACHE_DIR"] = os.path.join(workdir, "numba")
    e["TMPDIR"] = workdir
    e.pop("PYTHONOPTIMIZE", None)
    if shard.get("pyopt"):
        e["PYTHONOPTIMIZE"] = "1"      # assert statements of the library are stripped (python -O)
    cmd = [env.PYTHON, "-X", "faulthandler", "-m", "vp.worker", prop, json.dumps(shard), out]
    log = open(out + ".log", "w")
    return subprocess.Popen(cmd, cwd=env.VERIF, env=e, stdout=log, stderr=subprocess.STDOUT), log


def _line_coverage(prop, seen):
    """which lines of the property's anchor files ran while the monitors watched (sys.monitoring, vp/cover.py): per file the
    count; per anchored function (named, or pointed at by a line number, in the property's anchors) the lines that never ran
    in any shard of this run. Interpreted shards report the bodies of @njit kernels too; torch.jit.script bodies never report."""
    import re
    from . import cover
    out = {}
    try:
        anchors, text = [], ""
        with open(os.path.join(env.VERIF, "properties.jsonl")) as f:
            for ln in f:
                d = json.loads(ln)
                if d["id"] == prop:
                    anchors = d["anchors"]["files"]
                    text = " ; ".join(m.get("where", "") + " " + m.get("name", "") for m in d["anchors"]["mechanism"])
        words = set(re.findall(r"[A-Za-z_][A-Za-z_0-9]*(?:\.[A-Za-z_][A-Za-z_0-9]*)*", text))
        words |= set(w.split(".")[-1] for w in words)
        for rel in anchors:
            path = os.path.join(env.REPO, rel)
            if not os.path.exists(path):
                continue
            # line references that follow this file's name in the anchor text
            refs = []
            for chunk in re.findall(re.escape(rel) + r"([^;]*)", text):
                for a, b in re.findall(r"l\.(\d+)(?:-(\d+))?", chunk):
                    refs.append((int(a), int(b or a)))
            # the anchors' line numbers refer to the pinned commit: translate them to function names there
            ref_names = set()
            if refs:
                try:
                    import ast
                    import subprocess
                    log = subprocess.run(["git", "-C", env.REPO, "log", "--format=%H %s"], capture_output=True, text=True, timeout=60).stdout.splitlines()
                    base = next(l.split()[0] for l in log if not l.split(" ", 1)[1].startswith("fix:"))
                    src0 = subprocess.run(["git", "-C", env.REPO, "show", "%s:%s" % (base, rel)], capture_output=True, text=True, timeout=60).stdout
                    for node in ast.walk(ast.parse(src0)):
                        if isinstance(node, ast.FunctionDef) and any(node.lineno <= r1 and r0 <= node.end_lineno for r0, r1 in refs):
                            ref_names.add(node.name)
                except Exception:
                    pass
            exe = cover.executable_lines(path)
            got = set(seen.get(rel, ())) & exe
            anchored, others_partial, n_fn, n_full = {}, 0, 0, 0
            for name, a, b in cover.functions(path):
                body = set(x for x in exe if a < x <= b)
                if not body:
                    continue
                n_fn += 1
                miss = sorted(body - got)
                if not miss:
                    n_full += 1
                is_anchor = name in words or name.split(".")[-1] in words or name.split(".")[-1] in ref_names
                if is_anchor:
                    anchored[name] = {"lines": len(body), "executed": len(body) - len(miss), "never_executed": miss[:30]}
                elif miss:
                    others_partial += 1
            out[rel] = {"executable_lines": len(exe), "executed_lines": len(got), "functions": n_fn, "functions_fully_executed": n_full,
                        "anchored_functions": anchored, "other_functions_with_unexecuted_lines": others_partial}
    except Exception as e:  # evidence only: never a verdict
        out["error"] = "%s: %s" % (type(e).__name__, e)
    return out


def run_shards(prop, shards, seed, tier, jobs, timeout):
    workdir = tempfile.mkdtemp(prefix="vp-%s-" % prop)
    results = []
    pending = list(enumerate(shards))
    running = []
    t_start = time.time()
    try:
        while pending or running:
            while pending and len(running) < jobs:
                i, sh = pending.pop(0)
                out = os.path.join(workdir, "shard%03d.json" % i)
                p, log = _launch(prop, sh, out, seed, tier, workdir)
                running.append((i, sh, out, p, log, time.time()))
            time.sleep(0.05)
            still = []
            for (i, sh, out, p, log, t0) in running:
                rc = p.poll()
                if rc is None:
                    if time.time() - t0 > sh.get("timeout", timeout):
                        p.kill()
                        p.wait()
                        log.close()
                        results.append((sh, None, "worker timed out after %ds" % sh.get("timeout", timeout), None))
                    else:
                        still.append((i, sh, out, p, log, t0))
                    continue
                log.close()
                if os.path.exists(out):
                    with open(out) as f:
                        res = json.load(f)
                    dig = None
                    if os.path.exists(out + ".dig"):
                        dig = np.fromfile(out + ".dig", dtype=np.uint64)
                    results.append((sh, res, None, dig))
                else:
                    tail = ""
                    try:
                        with open(out + ".log") as f:
                            tail = f.read()[-1500:]
                    except OSError:
                        pass
                    results.append((sh, None, "worker exited %s without a result: %s" % (rc, tail), None))
            running = still
    finally:
        for (_, _, _, p, log, _) in running:
            try:
                p.kill()
            except Exception:
                pass
        shutil.rmtree(workdir, ignore_errors=True)
    return results, time.time() - t_start


def main(argv=None):
    ap = argparse.ArgumentParser()
    ap.add_argument("prop")
    ap.add_argument("--tier", default=os.environ.get("VERIF_TIER", "quick"), choices=["quick", "thorough"])
    ap.add_argument("--seed", type=int, default=int(os.environ.get("VERIF_SEED", "0") or 0))
    ap.add_argument("--jobs", type=int, default=int(os.environ.get("VP_JOBS", "16")))
    ap.add_argument("--replay", default=None)
    ap.add_argument("--only", default=None, help="run only shards whose name matches this glob")
    ap.add_argument("--no-evidence", action="store_true")
    a = ap.parse_args(argv)
    prop = a.prop.upper()
    mod = importlib.import_module("vp.workloads." + prop.lower())
    tier, seed = a.tier, a.seed
    replay_rec = None
    if a.replay:
        with open(a.replay) as f:
            replay_rec = json.load(f)
        tier, seed = replay_rec.get("tier", tier), replay_rec.get("seed", seed)
    shards = mod.shards(tier)
    # every numpy shard that varies memory layouts gets a sibling that varies element types instead (answers judged, refusals counted)
    for s in [s for s in shards if s.get("forms") and s.get("backend") == "np"]:
        # compiled kernels specialise per element type (seconds per signature): the JIT sibling uses one type per run, chosen by
        # seed and shard, mixed with int64; the interpreted sibling draws from all of them
        d = dict(s, dtypes=1, name=s["name"].replace("forms", "dtypes"))
        d.pop("forms")
        shards.append(d)
        e = dict(d, mode="interp", name=d["name"].replace("jit", "interp"))
        for k in ("n", "big", "chain"):
            if isinstance(e.get(k), int):
                e[k] = max(1, e[k] // (3 if tier == "quick" else 25))     # interpreted kernels are ~50x slower: the thorough counts are JIT counts
        shards.append(e)
    # one more execution mode of the same source: the interpreter run with -O (assert statements stripped). One random numpy shard
    # per property is repeated that way (JIT and interpreted kernels alike keep their asserts only when __debug__ is true)
    base = [s for s in shards if s.get("backend") == "np" and s.get("mode") == "jit" and not s.get("dtypes") and not s.get("forms") and not s.get("no_hooks")]
    pref = [s for s in base if s.get("fn") in ("rand", "progs", "trees", "sbrg", "circuits", "all", "sstate", "snapshots", "classes", "live")]
    for s0 in (pref or base)[:2]:
        d = dict(s0, pyopt=1, name="pyopt." + s0["name"])
        for k in ("n", "big", "chain"):
            if isinstance(d.get(k), int):
                d[k] = max(1, d[k] // 2)
        shards.append(d)
    if replay_rec:
        shards = [s for s in shards if s["name"] == replay_rec["shard"]]
    if a.only:
        shards = [s for s in shards if fnmatch.fnmatchcase(s["name"], a.only)]
    for k, s in enumerate(shards):
        s.setdefault("salt", k)
    timeout = 900 if tier == "quick" else 7200
    results, wall = run_shards(prop, shards, seed, tier, a.jobs, timeout)

    findings = known.load()
    counts, fails, calls, refusals, samples, spaces, extra = {}, {}, {}, {}, {}, [], {}
    problems, violations, shard_info = [], [], []
    digs = []
    lines_seen = {}
    for sh, res, err, dig in results:
        if res is None:
            problems.append("shard %s: %s" % (sh["name"], err))
            continue
        for k, v in res["counts"].items():
            counts[k] = counts.get(k, 0) + v
        for k, v in res["fail_counts"].items():
            fails[k] = fails.get(k, 0) + v
        for k, v in res["calls"].items():
            calls[k] = calls.get(k, 0) + v
        for k, v in res["refusals"].items():
            refusals[k] = refusals.get(k, 0) + v
        for k, v in res["samples"].items():
            if k not in samples and v:
                samples[k] = v[0]
        spaces += [dict(s, shard=sh["name"]) for s in res["spaces"]]
        extra[sh["name"]] = res["extra"]
        problems += ["shard %s: %s" % (sh["name"], p) for p in res["problems"]]
        violations += res["violations"]
        for fn, lns in res.get("lines", {}).items():
            lines_seen.setdefault(fn, set()).update(lns)
        if dig is not None:
            digs.append(dig)
        shard_info.append({"name": sh["name"], "mode": res["mode"], "backend": res["backend"],
                           "wall_s": round(res["wall_s"], 2), "evaluations": sum(res["counts"].values())})
    n_distinct = int(len(np.unique(np.concatenate(digs)))) if digs else 0
    evaluations = int(sum(counts.values()))

    # deciding monitors must have been reached
    for pat in getattr(mod, "REQUIRED_SUBS", []):
        if not any(fnmatch.fnmatchcase(k, pat) and v > 0 for k, v in counts.items()) and not replay_rec and not a.only:
            problems.append("deciding sub-check %s never evaluated" % pat)
    for pat in getattr(mod, "REQUIRED_CALLS", []):
        if not any(fnmatch.fnmatchcase(k, pat) and v > 0 for k, v in calls.items()) and not replay_rec and not a.only:
            problems.append("hooked call %s never observed" % pat)

    # classify violations
    new, matched = [], {}
    for v in violations:
        e = known.match(v, findings)
        if e is None:
            new.append(v)
        else:
            matched.setdefault(e["id"], [e, 0])[1] += 1
    rdir = os.path.join(env.VERIF, "replays", prop)
    lines = []
    seen_subs = set()
    for v in new:
        key = (v["sub"], v["backend"], v["mode"])
        if key in seen_subs or len(lines) >= 25:
            continue
        seen_subs.add(key)
        os.makedirs(rdir, exist_ok=True)
        path = os.path.join(rdir, "%s.json" % v["digest"])
        with open(path, "w") as f:
            json.dump(v, f, indent=1)
        lines.append("VIOLATION property=%s replay=%s sub=%s backend=%s mode=%s observed=%s" % (
            prop, path, v["sub"], v["backend"], v["mode"], json.dumps(v["observed"])[:160]))
    for fid, (e, n) in sorted(matched.items()):
        print("KNOWN-FINDING: property=%s %s [%s; %d matching observation(s)]" % (prop, e["what"], fid, n))
    for ln in lines:
        print(ln)

    if replay_rec:
        same = [v for v in violations if v["digest"] == replay_rec["digest"]]
        print("REPLAY %s: %s" % (a.replay, "reproduced" if same else "not reproduced"))
        if same:
            print(json.dumps(same[0], indent=1)[:3000])
        return 1 if same else 0

    verdict = "violated" if new else ("inconclusive" if problems else "held")
    line_cov = _line_coverage(prop, lines_seen)
    if not a.no_evidence and not a.only:
        ev = {
            "property_id": prop, "tier": tier, "seed": seed, "level": "exploration",
            "coverage": {
                "evaluations": evaluations,
                "distinct_nontrivial": n_distinct,
                "rule": getattr(mod, "RULE", ""),
                "samples": [{"sub": k, "example": v} for k, v in sorted(samples.items())][:40],
                "exhaustive": False,
                "exhaustive_subspaces": spaces,
                "subcheck_evaluations": dict(sorted(counts.items())),
                "subcheck_failures": dict(sorted(fails.items())),
                "hooked_calls_observed": dict(sorted(calls.items())),
                "documented_refusals_observed": refusals,
                "shards": shard_info,
                "per_shard_observations": extra,
                "lines_of_anchor_files_executed_under_the_monitors": line_cov,
                "known_findings_matched": {k: n for k, (e, n) in matched.items()},
                "verdict": verdict,
                "inconclusive_reasons": problems,
                "repo": env.REPO,
            },
            "assumptions": getattr(mod, "ASSUMPTIONS", []),
            "wall_s": round(wall, 2),
            "violations": len(new),
        }
        os.makedirs(os.path.join(env.VERIF, "evidence"), exist_ok=True)
        with open(os.path.join(env.VERIF, "evidence", "%s.json" % prop), "w") as f:
            json.dump(ev, f, indent=1, sort_keys=True)
    print("%s property=%s tier=%s seed=%d evaluations=%d distinct_nontrivial=%d shards=%d wall=%.1fs" % (
        verdict.upper(), prop, tier, seed, evaluations, n_distinct, len(shards), wall))
    if new:
        for p in problems[:5]:
            print("NOTE (also inconclusive): %s" % p.replace("\n", " | ")[:300])
        return 1
    if problems:
        for p in problems[:10]:
            print("INCONCLUSIVE property=%s reason=%s" % (prop, p.replace("\n", " | ")[:600]))
        return 2
    return 0


if __name__ == "__main__":
    sys.exit(main())
