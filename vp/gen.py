"""Input generators (oracle side only; nothing here calls the library)."""
import itertools

import numpy as np

from . import oracle as O


# register sizes and list lengths around natural implementation thresholds (machine words, byte counters, block sizes)
BIG_NS = [31, 32, 33, 63, 64, 65, 66, 70, 127, 128, 129, 130]
BIG_LS = [63, 64, 65, 255, 256, 257, 300, 1000, 1023, 1024, 1025, 2049, 4097]
HUGE_LS = [65535, 65537, 70001, 131071, 131072, 131073, 262143, 262144, 262145, 300001, 524289, 1048577]
HUGE_NS = [255, 256, 257, 512, 513]


def sparse_string(rng, N, w=None):
    """a string of weight w (default small) at random positions: exercises single high / low qubits of a wide register."""
    w = int(rng.integers(1, 4)) if w is None else w
    l = np.zeros(N, dtype=np.int64)
    l[rng.choice(N, size=min(w, N), replace=False)] = rng.integers(1, 4, min(w, N))
    return O.from_letters(l)


def rng_for(rec, extra=0):
    from .monitor import digest64
    return np.random.default_rng([rec.seed, digest64(rec.shard) & 0xFFFFFFFF, extra])


def rand_string(rng, N, kind=None):
    """hostile mix: uniform, all-Y, identity, single-site, all-X / all-Z, dense-Y."""
    k = kind if kind is not None else int(rng.integers(0, 10))
    if k == 0:
        return O.from_letters(np.full(N, 2))
    if k == 1:
        return np.zeros(2 * N, dtype=np.int64)
    if k == 2:
        l = np.zeros(N, dtype=np.int64)
        l[rng.integers(N)] = rng.integers(1, 4)
        return O.from_letters(l)
    if k == 3:
        return O.from_letters(np.full(N, int(rng.integers(1, 4))))
    if k == 4:
        l = rng.integers(0, 4, N)
        l[rng.integers(0, 2, N) == 1] = 2
        return O.from_letters(l)
    return rng.integers(0, 2, 2 * N).astype(np.int64)


def rand_nonid(rng, N, kind=None):
    while True:
        g = rand_string(rng, N, kind)
        if g.any():
            return g
        kind = None


def rand_list(rng, L, N):
    return np.stack([rand_string(rng, N) for _ in range(L)]) if L else np.zeros((0, 2 * N), dtype=np.int64)


def subsets(N):
    for k in range(N + 1):
        for c in itertools.combinations(range(N), k):
            yield list(c)


def rand_subset(rng, N, size=None):
    if size is None:
        size = int(rng.integers(0, N + 1))
    return sorted(rng.choice(N, size=size, replace=False).tolist())


def commuting_hermitian_list(rng, gs, ps, r, L, mix=True):
    """L mutually commuting Hermitian signed observables, hostile w.r.t. the state (gs,ps,r):
    +-stabilizers, products of stabilizers, logical operators, random, duplicates, dependent ones."""
    N = gs.shape[1] // 2
    out_g, out_p = [], []
    tries = 0
    while len(out_g) < L and tries < 200:
        tries += 1
        k = int(rng.integers(0, 8))
        if k <= 1 and r < N:      # product of active stabilizers (possibly single)
            sel = rng.integers(0, 2, N - r)
            if not sel.any():
                sel[rng.integers(N - r)] = 1
            g = np.zeros(2 * N, dtype=np.int64)
            p = 0
            for a in np.nonzero(sel)[0]:
                g, p = O.mul(g, p, gs[r + a], ps[r + a])
            p = int(p)
            if rng.integers(2):
                p = (p + 2) % 4
        elif k == 2 and r > 0:    # logical operator: product of standby rows
            sel = rng.integers(0, 2, 2 * r)
            if not sel.any():
                sel[rng.integers(2 * r)] = 1
            rows = list(range(r)) + list(range(N, N + r))
            g = np.zeros(2 * N, dtype=np.int64)
            for a in np.nonzero(sel)[0]:
                g = (g + gs[rows[a]]) % 2
            p = 2 * int(rng.integers(2))
        elif k == 3 and out_g:    # duplicate / product of earlier ones
            i = int(rng.integers(len(out_g)))
            g, p = out_g[i].copy(), out_p[i]
            if rng.integers(2) and len(out_g) > 1:
                j = int(rng.integers(len(out_g)))
                g, p = O.mul(g, p, out_g[j], out_p[j])
                p = int(p)
        elif k == 4:              # single-site Z or X
            g = np.zeros(2 * N, dtype=np.int64)
            g[2 * int(rng.integers(N)) + int(rng.integers(2))] = 1
            p = 2 * int(rng.integers(2))
        else:
            g = rand_string(rng, N)
            p = 2 * int(rng.integers(2))
        if p % 2:
            continue
        if all(not O.anti(g, h) for h in out_g):
            out_g.append(np.asarray(g, dtype=np.int64))
            out_p.append(int(p))
    if not out_g:
        out_g.append(np.zeros(2 * N, dtype=np.int64))
        out_p.append(0)
    return np.stack(out_g), np.array(out_p, dtype=np.int64)


def independent_commuting(rng, N, L):
    """L independent commuting signed Hermitian stabilizers on N qubits (via a random tableau)."""
    gs, ps, _ = O.random_tableau(rng, N, r=0)
    # random invertible recombination of the N stabilizer rows, take L of them
    rows = [(gs[a], int(ps[a])) for a in range(N)]
    for _ in range(2 * N):
        i, j = rng.integers(N), rng.integers(N)
        if i != j:
            g, p = O.mul(rows[i][0], rows[i][1], rows[j][0], rows[j][1])
            rows[i] = (g, int(p))
    order = rng.permutation(N)[:L]
    return np.stack([rows[i][0] for i in order]), np.array([rows[i][1] for i in order], dtype=np.int64)


def rand_coeffs(rng, L, real=False):
    c = rng.normal(size=L) if real else rng.normal(size=L) + 1j * rng.normal(size=L)
    # a few exact values to provoke cancellations
    for i in range(L):
        k = rng.integers(0, 6)
        if k == 0:
            c[i] = 1
        elif k == 1:
            c[i] = -1
        elif k == 2 and not real:
            c[i] = 1j
    return c
