"""Gate programs: oracle-side specifications, their oracle maps, and instantiation as fresh library gates.

A spec is a dict: {"kind": gen|genq|fmap|bmap|named|C, "qubits": [...], ...}
  gen   : generator (G,PG) given on the full register, gate built by clifford_rotation_gate(P)
  genq  : generator on len(qubits) qubits + explicit qubit array, clifford_rotation_gate(P, qubits)
  setgen: CliffordGate(*qubits) + set_generator(P) (generator lives on the gate's qubits)
  fmap  : CliffordGate(*qubits) + set_forward_map
  bmap  : CliffordGate(*qubits) + set_backward_map only
  named : H,S,X,Y,Z,CNOT ;  C: C(k, q)
"""
import numpy as np

from . import oracle as O
from . import gen

NAMED1 = {
    "H": (np.array([[0, 1], [1, 0]]), np.array([0, 0])),
    "S": (np.array([[1, 1], [0, 1]]), np.array([0, 0])),
    "X": (np.array([[1, 0], [0, 1]]), np.array([0, 2])),
    "Y": (np.array([[1, 0], [0, 1]]), np.array([2, 2])),
    "Z": (np.array([[1, 0], [0, 1]]), np.array([2, 0])),
}


def support(g):
    l = O.letters(g)
    return [int(q) for q in np.nonzero(l)[0]]


def rand_spec(rng, N, kinds=None, named=True):
    kinds = kinds or (["gen", "genq", "setgen", "fmap", "bmap"] + (["named", "C"] if named else []))
    k = kinds[int(rng.integers(len(kinds)))]
    if k == "gen":
        G = gen.rand_nonid(rng, N)
        return {"kind": "gen", "G": G, "PG": 2 * int(rng.integers(2)), "qubits": support(G)}
    if k == "genq":
        n = int(rng.integers(1, N + 1))
        qs = gen.rand_subset(rng, N, n)
        G = gen.rand_nonid(rng, n)
        return {"kind": "genq", "G": G, "PG": 2 * int(rng.integers(2)), "qarray": qs, "qubits": [qs[i] for i in support(G)]}
    if k == "setgen":
        n = int(rng.integers(1, min(N, 3) + 1))
        qs = gen.rand_subset(rng, N, n)
        G = gen.rand_nonid(rng, n)
        return {"kind": "setgen", "G": G, "PG": 2 * int(rng.integers(2)), "qubits": qs}
    if k in ("fmap", "bmap"):
        n = int(rng.integers(1, min(N, 3) + 1))
        qs = gen.rand_subset(rng, N, n)
        mg, mp = O.random_map(rng, n)
        return {"kind": k, "mg": mg, "mp": mp, "qubits": qs}
    if k == "named":
        nm = ["H", "S", "X", "Y", "Z", "CNOT"][int(rng.integers(6))]
        if nm == "CNOT" and N >= 2:
            c, t = rng.choice(N, 2, replace=False)
            return {"kind": "named", "name": "CNOT", "qubits": [int(c), int(t)]}
        if nm == "CNOT":
            nm = "H"
        return {"kind": "named", "name": nm, "qubits": [int(rng.integers(N))]}
    return {"kind": "C", "index": int(rng.integers(24)), "qubits": [int(rng.integers(N))]}


def spec_map(spec, N):
    """oracle forward map (N-qubit) of the gate."""
    k = spec["kind"]
    if k == "gen":
        return O.map_of_rotation(np.asarray(spec["G"]), spec["PG"])
    if k == "genq":
        return O.map_of_rotation(O.embed_string(np.asarray(spec["G"]), spec["qarray"], N), spec["PG"])
    if k == "setgen":
        return O.map_of_rotation(O.embed_string(np.asarray(spec["G"]), spec["qubits"], N), spec["PG"])
    if k == "fmap":
        return O.map_embed(spec["mg"], spec["mp"], spec["qubits"], N)
    if k == "bmap":
        ig, ip = O.map_inverse(spec["mg"], spec["mp"])
        return O.map_embed(ig, ip, spec["qubits"], N)
    if k == "named":
        if spec["name"] == "CNOT":
            gs, ps = O.map_identity(N)
            c, t = spec["qubits"]
            gs[2 * c, 2 * t] = 1
            gs[2 * t + 1, 2 * c + 1] = 1
            return gs, ps
        m = NAMED1[spec["name"]]
        return O.map_embed(m[0], m[1], spec["qubits"], N)
    if k == "C":
        m = list(O.all_maps(1))  # index semantics are the library's; taken from the gate itself in make_gate
        raise ValueError("C gates need the library table; use spec_map_from_gate")
    raise ValueError(k)


def make_gate(B, spec, N):
    """a fresh library gate for the spec."""
    C = B.circuit
    k = spec["kind"]
    if k == "gen":
        return C.clifford_rotation_gate(B.Pauli(np.asarray(spec["G"]), spec["PG"]))
    if k == "genq":
        qa = np.array(spec["qarray"])
        return C.clifford_rotation_gate(B.Pauli(np.asarray(spec["G"]), spec["PG"]), qa)
    if k == "setgen":
        g = C.CliffordGate(*spec["qubits"])
        g.set_generator(B.Pauli(np.asarray(spec["G"]), spec["PG"]))
        return g
    if k == "fmap":
        g = C.CliffordGate(*spec["qubits"])
        g.set_forward_map(B.Map(spec["mg"].copy(), spec["mp"].copy()))
        return g
    if k == "bmap":
        g = C.CliffordGate(*spec["qubits"])
        g.set_backward_map(B.Map(spec["mg"].copy(), spec["mp"].copy()))
        return g
    if k == "named":
        return getattr(C, spec["name"])(*spec["qubits"])
    if k == "C":
        return C.C(spec["index"], *spec["qubits"])
    raise ValueError(k)


def spec_map_any(B, spec, N):
    if spec["kind"] == "C":
        g = B.circuit.C(spec["index"], 0)
        fg, fp = B.gsps(g.forward_map)
        return O.map_embed(fg, fp, spec["qubits"], N)
    return spec_map(spec, N)


def describe(spec):
    d = {"kind": spec["kind"], "qubits": list(spec["qubits"])}
    if "G" in spec:
        d["G"] = O.show(np.asarray(spec["G"]), spec["PG"])
    if "qarray" in spec:
        d["qarray"] = list(spec["qarray"])
    if "mg" in spec:
        d["map"] = [O.show(g, p) for g, p in zip(spec["mg"], spec["mp"])]
    if "name" in spec:
        d["name"] = spec["name"]
    if "index" in spec:
        d["index"] = spec["index"]
    return d


def rand_program(rng, N, length, kinds=None, named=True, shape=None):
    """adversarial shapes: chains on disjoint qubits then a bridging gate, repeated same-qubit gates, full-register gates."""
    prog = []
    shape = shape if shape is not None else int(rng.integers(0, 5))
    for i in range(length):
        s = rand_spec(rng, N, kinds, named)
        if shape == 1 and N >= 2 and i < length - 1:
            # single-qubit gates on disjoint qubits, to be bridged by the last gate
            s = rand_spec(rng, N, ["setgen", "fmap", "bmap"], False)
            while len(s["qubits"]) != 1:
                s = rand_spec(rng, N, ["setgen", "fmap", "bmap"], False)
        if shape == 2 and i % 2 == 0:
            s = rand_spec(rng, N, ["setgen", "fmap"], False)
            s_q = [0]
            if len(s["qubits"]) != 1:
                continue
            s["qubits"] = s_q
        prog.append(s)
    if shape == 1 and N >= 2:
        G = gen.rand_nonid(rng, N, 3)
        prog.append({"kind": "gen", "G": G, "PG": 0, "qubits": support(G)})
    if not prog:
        prog.append(rand_spec(rng, N, kinds, named))
    return prog


def program_map(B, prog, N):
    gs, ps = O.map_identity(N)
    for s in prog:
        mg, mp = spec_map_any(B, s, N)
        gs, ps = O.map_compose(gs, ps, mg, mp)
    return gs, ps


def layer_structure(circ):
    """list of layers (forward order); each a list of gates, or ('M', qubits) for a measurement layer."""
    out = []
    layer = circ.first_layer
    guard = 0
    while layer is not None and guard < 100000:
        guard += 1
        if hasattr(layer, "gates"):
            out.append(list(layer.gates))
        else:
            out.append(("M", tuple(layer.qubits)))
        layer = layer.next_layer
    return out


def check_layering(circ, inserted):
    """trace specification over the final layer structure of a circuit.
    inserted: the gate / measurement-layer objects in the order they were handed to take().
    Returns (problems, positions)."""
    bad = []
    pos = {}
    n_gates = 0
    layer = circ.first_layer
    li = 0
    while layer is not None and li < 100000:
        if hasattr(layer, "gates"):
            seen = set()
            for g in layer.gates:
                n_gates += 1
                qs = set(int(q) for q in g.qubits)
                if qs & seen:
                    bad.append("layer %d holds overlapping gates" % li)
                seen |= qs
                if id(g) in pos:
                    bad.append("a gate appears twice")
                pos[id(g)] = li
        else:
            pos[id(layer)] = li
        if layer.next_layer is not None and layer.next_layer.prev_layer is not layer:
            bad.append("layer links inconsistent at %d" % li)
        if layer.next_layer is None and circ.last_layer is not layer:
            bad.append("last_layer does not end the chain")
        layer = layer.next_layer
        li += 1
    is_m = [not hasattr(o, "generator") for o in inserted]
    for k, o in enumerate(inserted):
        if id(o) not in pos:
            bad.append("inserted item #%d is not in the circuit" % k)
    if n_gates != sum(1 for m in is_m if not m):
        bad.append("circuit holds %d gates, %d were inserted" % (n_gates, sum(1 for m in is_m if not m)))
    if bad:
        return bad, pos
    qsets = [set(int(q) for q in o.qubits) for o in inserted]
    for a in range(len(inserted)):
        for b in range(a + 1, len(inserted)):
            if is_m[a] or is_m[b] or (qsets[a] & qsets[b]):
                if not pos[id(inserted[a])] < pos[id(inserted[b])]:
                    bad.append("items #%d and #%d (dependent) are in layers %d and %d" % (a, b, pos[id(inserted[a])], pos[id(inserted[b])]))
    return bad, pos


def wide_program(rng, N, length=None):
    """small gates on low / middle / high qubits of a wide register, so that gates overlap on high qubits only;
    includes clifford_rotation_gate gates (which derive numpy-integer qubit labels themselves)."""
    hot = sorted(set([0, 1, N // 2, N - 3, N - 2, N - 1] + [q for q in (31, 32, 63, 64, 65, 127, 128) if q < N]))
    prog = []
    for _ in range(length or int(rng.integers(4, 14))):
        n = int(rng.integers(1, 4))
        qs = sorted(int(x) for x in rng.choice(hot, size=min(n, len(hot)), replace=False))
        kind = ["fmap", "bmap", "setgen", "gen", "gen"][int(rng.integers(5))]
        if kind == "gen":
            G = np.zeros(2 * N, dtype=np.int64)
            for q in qs:
                G[2 * q:2 * q + 2] = [(1, 0), (0, 1), (1, 1)][int(rng.integers(3))]
            prog.append({"kind": "gen", "G": G, "PG": 2 * int(rng.integers(2)), "qubits": qs})
        elif kind == "setgen":
            prog.append({"kind": "setgen", "G": gen.rand_nonid(rng, len(qs)), "PG": 2 * int(rng.integers(2)), "qubits": qs})
        else:
            mg, mp = O.random_map(rng, len(qs))
            prog.append({"kind": kind, "mg": mg, "mp": mp, "qubits": qs})
    return prog, hot
