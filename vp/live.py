"""Histories on ONE live state object: public in-place operations are applied to the real object and mirrored on the
oracle's stabilizer-group state; after every step a query callback compares what the library now answers with the oracle.
Purpose: anything that survives across calls (caches, stale ranks, aliased buffers, lazily derived maps) must not leak
into later answers - fresh-object checks cannot see that."""
import numpy as np

from . import oracle as O
from . import gen
from . import programs as PR


def walk(rec, B, rng, N, steps, query, sub="live", start=None, allow_measure=True):
    if start is None:
        tg, tp, r = O.random_tableau(rng, N)
    else:
        tg, tp, r = start
    S = B.State(tg.copy(), tp.copy(), r)
    G = O.GroupState.from_tableau(tg, tp, r)
    hist = [["start", [O.show(a, b) for a, b in zip(tg[r:N], tp[r:N])], r]]
    gates = [PR.make_gate(B, PR.rand_spec(rng, N, named=(B.name == "np")), N) for _ in range(2)] if N >= 1 else []
    gate_specs = None
    for step in range(steps):
        k = int(rng.integers(10 if allow_measure else 6))
        try:
            if k == 0:
                Gn, PG = gen.rand_nonid(rng, N), 2 * int(rng.integers(2))
                S.rotate_by(B.Pauli(Gn, PG))
                G.apply_rot(Gn, PG)
                hist.append(["rotate", O.show(Gn, PG)])
            elif k == 1:
                qs = gen.rand_subset(rng, N, int(rng.integers(1, N + 1)))
                Gs, PG = gen.rand_string(rng, len(qs)), 2 * int(rng.integers(2))
                m = np.zeros(N, dtype=bool)
                m[qs] = True
                S.rotate_by(B.Pauli(Gs, PG), mask=(m if B.name == "np" else B.torch.tensor(m)))
                G.apply_rot(O.embed_string(Gs, qs, N), PG)
                hist.append(["rotate.mask", qs, O.show(Gs, PG)])
            elif k == 2:
                mg, mp = O.random_map(rng, N)
                S.transform_by(B.Map(mg.copy(), mp.copy()))
                G.apply_map(mg, mp)
                hist.append(["transform"])
            elif k == 3:
                n = int(rng.integers(1, min(N, 3) + 1))
                qs = gen.rand_subset(rng, N, n)
                sm = O.random_map(rng, n)
                m = np.zeros(N, dtype=bool)
                m[qs] = True
                S.transform_by(B.Map(sm[0].copy(), sm[1].copy()), mask=(m if B.name == "np" else B.torch.tensor(m)))
                G.apply_map(*O.map_embed(sm[0], sm[1], qs, N))
                hist.append(["transform.mask", qs])
            elif k == 4:
                spec = PR.rand_spec(rng, N, named=(B.name == "np"))
                gate = PR.make_gate(B, spec, N)
                mg, mp = PR.spec_map_any(B, spec, N)
                if rng.integers(2):
                    gate.forward(S)
                    G.apply_map(mg, mp)
                else:
                    gate.backward(S)
                    G.apply_map(*O.map_inverse(mg, mp))
                hist.append(["gate", PR.describe(spec)])
            elif k == 5:
                S = S.copy()
                hist.append(["copy"])
            elif k == 9:
                # a measurement layer applied directly (it writes the state's arrays and rank from outside the state class)
                if B.name != "np" or not hasattr(B.circuit, "MeasureLayer"):
                    continue
                qs = [int(q) for q in rng.permutation(N)[:int(rng.integers(1, N + 1))]]
                ML = B.circuit.MeasureLayer(*qs, N=N)
                ML.forward(S)
                res = [int(x) for x in np.asarray(ML.result).reshape(-1)]
                for q, x in zip(qs, res):
                    zg = np.zeros(2 * N, dtype=np.int64)
                    zg[2 * q + 1] = 1
                    if G.project(zg, 0, (1 - x) // 2) == 0:
                        rec.check(sub + ".measure", False, {"history": hist[-6:]}, True, expected="possible outcome", observed=res)
                        return
                hist.append(["measure layer", qs, res])
            elif k == 8:
                # post-selection of a signed Pauli (pure states, pyclifford only): probability 0 leaves the state alone
                if B.name != "np" or G.r != 0 or not hasattr(S, "postselect"):
                    continue
                Gn, PG = gen.rand_nonid(rng, N), 2 * int(rng.integers(2))
                bit = int(rng.integers(2))
                want = G.copy().project(Gn, PG, bit)
                prob = S.postselect(B.Pauli(Gn, PG), bit)
                if want > 0:
                    G.project(Gn, PG, bit)
                hist.append(["postselect", O.show(Gn, PG), bit, float(prob)])
                if abs(float(prob) - want) > 1e-9:
                    rec.check(sub + ".postselect", False, {"history": hist[-6:]}, True, expected=want, observed=float(prob))
                    return
            elif B.name == "np":
                g0, p0, r0 = B.state(S)
                og, op = gen.commuting_hermitian_list(rng, g0, p0, r0, int(rng.integers(1, 3)))
                out, _ = S.measure(B.PauliList(og.copy(), op.copy()))
                for j in range(len(og)):
                    if G.project(og[j], op[j], int(out[j])) == 0:
                        rec.check(sub + ".measure", False, {"history": hist[-6:]}, True, expected="possible outcome", observed=[int(x) for x in out])
                        return
                hist.append(["measure", [O.show(a, b) for a, b in zip(og, op)], [int(x) for x in out]])
            else:
                continue
        except Exception as e:
            rec.violation(sub + ".raises", {"history": hist[-8:], "N": N}, expected="a result", observed="%s: %s" % (type(e).__name__, str(e)[:300]),
                          tags={"exception": type(e).__name__})
            return
        g1, p1, r1 = B.state(S)
        good = r1 == G.r and not O.tableau_problems(g1, p1, r1) and O.state_key(g1, p1, r1) == G.key()
        rec.check(sub + ".track", good, {"N": N, "history": hist[-8:], "step": step}, True,
                  expected={"r": G.r}, observed={"r": r1, "rows": [O.show(a, b) for a, b in zip(g1[r1:N], p1[r1:N])]})
        if not good:
            return
        query(S, G, hist, step)
