"""Reference model. Imports nothing from the library under test.

Three layers that share no formula with each other or with the library:
  dense  - Kronecker-product matrices from three 2x2 literals
  table  - per-qubit multiplication table of (letter, power of i)
  GF(2)  - own Gaussian elimination: rank, inverse, canonical signed groups

Conventions (stated here independently): a string g=[x0,z0,x1,z1,...] denotes the
tensor product of letters (x,z): (0,0)=I (1,0)=X (1,1)=Y (0,1)=Z; an operator is
i^p times that tensor product.
"""
import itertools
import numpy as np

I2 = np.array([[1, 0], [0, 1]], dtype=complex)
SX = np.array([[0, 1], [1, 0]], dtype=complex)
SY = np.array([[0, -1j], [1j, 0]], dtype=complex)
SZ = np.array([[1, 0], [0, -1]], dtype=complex)
_LET = {(0, 0): I2, (1, 0): SX, (1, 1): SY, (0, 1): SZ}
_MAT = [I2, SX, SY, SZ]  # letter codes 0=I 1=X 2=Y 3=Z

# ---------------------------------------------------------------- table layer
# one-qubit products a*b = i^e c, from the cyclic rule XY=iZ, YZ=iX, ZX=iY
_T_LET = np.zeros((4, 4), dtype=np.int64)
_T_PH = np.zeros((4, 4), dtype=np.int64)
for _a in range(4):
    for _b in range(4):
        if _a == 0:
            _T_LET[_a, _b] = _b
        elif _b == 0:
            _T_LET[_a, _b] = _a
        elif _a == _b:
            _T_LET[_a, _b] = 0
        else:
            _c = 6 - _a - _b
            _T_LET[_a, _b] = _c
            _T_PH[_a, _b] = 1 if (_a, _b) in ((1, 2), (2, 3), (3, 1)) else 3
_T_ANTI = ((_T_PH % 2) == 1).astype(np.int64)


def letters(g):
    g = np.asarray(g).astype(np.int64)
    x = g[..., 0::2]
    z = g[..., 1::2]
    return np.where(x == 1, np.where(z == 1, 2, 1), np.where(z == 1, 3, 0))


def from_letters(l):
    l = np.asarray(l)
    g = np.zeros(l.shape[:-1] + (2 * l.shape[-1],), dtype=np.int64)
    g[..., 0::2] = (l == 1) | (l == 2)
    g[..., 1::2] = (l == 3) | (l == 2)
    return g


def mul(g1, p1, g2, p2):
    """table product, broadcasting over leading axes. returns (g, p mod 4)."""
    l1 = letters(g1)
    l2 = letters(g2)
    l1, l2 = np.broadcast_arrays(l1, l2)
    out = _T_LET[l1, l2]
    ph = _T_PH[l1, l2].sum(-1)
    return from_letters(out), (np.asarray(p1) + np.asarray(p2) + ph) % 4


def anti(g1, g2):
    l1 = letters(g1)
    l2 = letters(g2)
    l1, l2 = np.broadcast_arrays(l1, l2)
    return _T_ANTI[l1, l2].sum(-1) % 2


def anti_mat(gs):
    gs = np.asarray(gs)
    return anti(gs[:, None, :], gs[None, :, :])


def is_identity(g):
    return not np.any(np.asarray(g))


def s2g(s):
    """'XYZI' -> binary string (oracle's own parser, letters only)."""
    m = {'I': (0, 0), 'X': (1, 0), 'Y': (1, 1), 'Z': (0, 1)}
    out = []
    for ch in s:
        out.extend(m[ch])
    return np.array(out, dtype=np.int64)


def g2s(g):
    return ''.join('IXYZ'[k] for k in letters(g))


def show(g, p=0):
    return ['+', '+i', '-', '-i'][int(p) % 4] + g2s(g)


def all_strings(N):
    """all 4^N binary strings, shape (4^N, 2N), lexicographic in letters I,X,Y,Z."""
    ls = np.array(list(itertools.product(range(4), repeat=N)), dtype=np.int64).reshape(-1, N)
    return from_letters(ls)


# ---------------------------------------------------------------- dense layer
def dense(g, p=0):
    g = np.asarray(g).astype(np.int64)
    m = np.array([[1]], dtype=complex)
    for k in letters(g):
        m = np.kron(m, _MAT[int(k)])
    return (1j ** (int(p) % 4)) * m


def dense_poly(gs, ps, cs):
    gs = np.asarray(gs)
    N = gs.shape[1] // 2
    out = np.zeros((2 ** N, 2 ** N), dtype=complex)
    for g, p, c in zip(gs, ps, cs):
        out = out + complex(c) * dense(g, p)
    return out


def rho(gs, ps, r):
    gs = np.asarray(gs)
    N = gs.shape[1] // 2
    D = 2 ** N
    out = np.eye(D, dtype=complex)
    for a in range(int(r), N):
        out = out @ (np.eye(D) + dense(gs[a], ps[a])) / 2
    return out / 2 ** int(r)


def rot_unitary(G, P):
    """U = exp(i pi/4 M(G,P)) = (1 + i M)/sqrt2, for Hermitian M."""
    M = dense(G, P)
    return (np.eye(M.shape[0]) + 1j * M) / np.sqrt(2)


def close(a, b, tol=1e-9):
    a = np.asarray(a)
    b = np.asarray(b)
    return a.shape == b.shape and bool(np.all(np.abs(a - b) <= tol))


def ptrace(r, N, keep):
    keep = list(keep)
    t = r.reshape([2] * (2 * N))
    cur = N
    # trace qubits not kept, highest first
    for q in sorted((q for q in range(N) if q not in keep), reverse=True):
        t = np.trace(t, axis1=q, axis2=q + cur)
        cur -= 1
    d = 2 ** len(keep)
    return t.reshape(d, d)


def vn_entropy(r):
    w = np.linalg.eigvalsh((r + r.conj().T) / 2)
    w = w[w > 1e-12]
    return float(-(w * np.log2(w)).sum())


def basis_proj(bits):
    N = len(bits)
    D = 2 ** N
    idx = int(''.join(str(int(b)) for b in bits), 2) if N else 0
    P = np.zeros((D, D), dtype=complex)
    P[idx, idx] = 1
    return P


# ---------------------------------------------------------------- rotation rule
def rot_image(G, PG, g, p):
    """U^dag P U with U = exp(i pi/4 G): P if commuting, i*P*G otherwise. vectorised over g,p."""
    g = np.asarray(g)
    p = np.asarray(p)
    a = anti(G, g)
    g2, p2 = mul(g, p, G, PG)
    p2 = (p2 + 1) % 4
    a2 = a[..., None] if g.ndim > 1 else a
    return np.where(a2 == 1, g2, g), np.where(a == 1, p2, p % 4)


def embed_string(gsmall, qubits, N):
    out = np.zeros(2 * N, dtype=np.int64)
    for k, q in enumerate(qubits):
        out[2 * q] = gsmall[2 * k]
        out[2 * q + 1] = gsmall[2 * k + 1]
    return out


# ---------------------------------------------------------------- Clifford maps
def map_valid(gs, ps):
    gs = np.asarray(gs)
    ps = np.asarray(ps)
    n2 = gs.shape[0]
    if gs.shape != (n2, n2) or n2 % 2 or ps.shape != (n2,):
        return False
    if not np.all((gs == 0) | (gs == 1)):
        return False
    if np.any(ps % 2 != 0):
        return False
    want = np.zeros((n2, n2), dtype=np.int64)
    for k in range(n2 // 2):
        want[2 * k, 2 * k + 1] = want[2 * k + 1, 2 * k] = 1
    return bool(np.array_equal(anti_mat(gs), want))


def map_image(mgs, mps, g, p):
    """image of operator (g,p) under the map whose row 2k is the image of X_k and
    row 2k+1 the image of Z_k. P = i^p prod_k L_k, with Y_k = i X_k Z_k."""
    mgs = np.asarray(mgs)
    N = mgs.shape[0] // 2
    og = np.zeros(2 * N, dtype=np.int64)
    op = int(p) % 4
    for k in range(N):
        x, z = int(g[2 * k]), int(g[2 * k + 1])
        if x and z:
            op = (op + 1) % 4
        if x:
            og, op = mul(og, op, mgs[2 * k], mps[2 * k])
        if z:
            og, op = mul(og, op, mgs[2 * k + 1], mps[2 * k + 1])
    return og, int(op)


def map_image_list(mgs, mps, gs, ps):
    """vectorised over the list: conditional table products with the 2N rows of the map, in order
    X_0, Z_0, X_1, Z_1, ... (Y_k = i X_k Z_k supplies one factor i per Y)."""
    mgs = np.asarray(mgs).astype(np.int64)
    gs = np.asarray(gs).astype(np.int64)
    L = len(gs)
    N = mgs.shape[0] // 2
    og = np.zeros((L, 2 * N), dtype=np.int64)
    op = (np.asarray(ps).astype(np.int64) + (gs[:, 0::2] * gs[:, 1::2]).sum(-1)) % 4
    for k in range(2 * N):
        sel = gs[:, k] == 1
        if not sel.any():
            continue
        ng, npp = mul(og, op, mgs[k], int(mps[k]))
        og = np.where(sel[:, None], ng, og)
        op = np.where(sel, npp, op)
    return og, op % 4


def map_identity(N):
    return np.eye(2 * N, dtype=np.int64), np.zeros(2 * N, dtype=np.int64)


def map_compose(ags, aps, bgs, bps):
    """A then B: row k of result = image under B of row k of A."""
    return map_image_list(bgs, bps, ags, aps)


def map_embed(sgs, sps, qubits, N):
    gs, ps = map_identity(N)
    n = len(qubits)
    for a in range(n):
        for t in range(2):
            row = 2 * qubits[a] + t
            gs[row] = embed_string(sgs[2 * a + t], qubits, N)
            ps[row] = sps[2 * a + t]
    return gs, ps


def map_of_rotation(G, PG):
    N = len(G) // 2
    gs, ps = map_identity(N)
    return rot_image(G, PG, gs, ps)


def gf2rank(M):
    M = (np.array(M).astype(np.int64) % 2).copy()
    if M.size == 0:
        return 0
    r = 0
    for c in range(M.shape[1]):
        idx = np.nonzero(M[r:, c])[0]
        if len(idx) == 0:
            continue
        i = r + idx[0]
        if i != r:
            M[[r, i]] = M[[i, r]]
        rows = np.nonzero(M[:, c])[0]
        rows = rows[rows != r]
        if len(rows):
            M[rows] ^= M[r]
        r += 1
        if r == M.shape[0]:
            break
    return r


def gf2inv(M):
    M = np.array(M).astype(np.int64) % 2
    n = M.shape[0]
    A = np.concatenate([M, np.eye(n, dtype=np.int64)], axis=1)
    for c in range(n):
        idx = np.nonzero(A[c:, c])[0]
        if len(idx) == 0:
            return None
        i = c + idx[0]
        if i != c:
            A[[c, i]] = A[[i, c]]
        for j in range(n):
            if j != c and A[j, c]:
                A[j] ^= A[c]
    return A[:, n:]


def map_inverse(gs, ps):
    """the map B with A then B = identity: row k of B is the operator whose image under ... ;
    defined by: image_B(row_k(A)) = generator k. B's rows solved by GF(2) inverse and phase fix."""
    gs = np.asarray(gs)
    inv = gf2inv(gs)
    n2 = gs.shape[0]
    bps = np.zeros(n2, dtype=np.int64)
    # B row k = image of generator k under B. Require compose(A,B)=id.
    # Solve: B is the map with image_A(B_row_k as operator) ... use the characterisation
    # compose(B, A) = id as well (group inverse is two-sided): image under A of row k of B = e_k.
    for k in range(n2):
        g, p = map_image(gs, ps, inv[k], 0)
        bps[k] = (-p) % 4
    return inv, bps


_SP_CACHE = {}


def symplectic_matrices(N):
    """all binary (2N x 2N) matrices whose rows satisfy the canonical anticommutation pattern."""
    if N in _SP_CACHE:
        return _SP_CACHE[N]
    if N == 1:
        S = all_strings(1)[1:]
        out = [np.stack([a, b]) for a in S for b in S if anti(a, b)]
    elif N == 2:
        # build row by row to avoid scanning 2^16 matrices
        S = all_strings(2)[1:]
        out = []
        for r0 in S:
            for r1 in S:
                if not anti(r0, r1):
                    continue
                for r2 in S:
                    if anti(r0, r2) or anti(r1, r2):
                        continue
                    for r3 in S:
                        if anti(r0, r3) or anti(r1, r3) or not anti(r2, r3):
                            continue
                        out.append(np.stack([r0, r1, r2, r3]))
    else:
        raise ValueError("enumeration only for N<=2")
    _SP_CACHE[N] = out
    return out


def all_maps(N):
    """every valid Clifford map for N<=2 as (gs, ps): |Sp|*4^N."""
    for M in symplectic_matrices(N):
        for signs in itertools.product((0, 2), repeat=2 * N):
            yield M.copy(), np.array(signs, dtype=np.int64)


def random_map(rng, N, nrot=None):
    """valid map built by the oracle as a product of random rotations (+ random signs)."""
    gs, ps = map_identity(N)
    k = nrot if nrot is not None else 3 * N + 3
    for _ in range(k):
        G = rng.integers(0, 2, 2 * N)
        if not G.any():
            continue
        gs, ps = rot_image(G, 2 * int(rng.integers(0, 2)), gs, ps)
    ps = (ps + 2 * rng.integers(0, 2, 2 * N)) % 4
    return gs, ps


def unitary_from_map(gs, ps):
    """V with V M(P) V^dag = M(image P) for all P (N<=3): V|b> = prod_k A_k^{b_k} |phi>."""
    N = len(gs) // 2
    D = 2 ** N
    A = [dense(gs[2 * k], ps[2 * k]) for k in range(N)]
    B = [dense(gs[2 * k + 1], ps[2 * k + 1]) for k in range(N)]
    P = np.eye(D, dtype=complex)
    for b in B:
        P = P @ (np.eye(D) + b) / 2
    w, v = np.linalg.eigh((P + P.conj().T) / 2)
    if abs(w[-1] - 1) > 1e-9 or (D > 1 and abs(w[-2]) > 1e-9):
        return None
    phi = v[:, -1]
    V = np.zeros((D, D), complex)
    for bits in itertools.product((0, 1), repeat=N):
        vec = phi.copy()
        for k in reversed(range(N)):
            if bits[k]:
                vec = A[k] @ vec
        V[:, int(''.join(map(str, bits)), 2) if N else 0] = vec
    return V


# ---------------------------------------------------------------- tableaux / states
def tableau_pattern(N):
    want = np.zeros((2 * N, 2 * N), dtype=np.int64)
    for a in range(N):
        want[a, a + N] = want[a + N, a] = 1
    return want


def tableau_problems(gs, ps, r):
    """list of reasons why (gs,ps,r) is not a valid stabilizer tableau (empty = valid)."""
    out = []
    try:
        gs = np.asarray(gs)
        ps = np.asarray(ps)
    except Exception as e:  # pragma: no cover
        return ["not arrays: %r" % (e,)]
    if gs.ndim != 2 or gs.shape[0] != gs.shape[1] or gs.shape[0] % 2:
        return ["gs shape %r" % (gs.shape,)]
    N = gs.shape[0] // 2
    if ps.shape != (2 * N,):
        out.append("ps shape %r" % (ps.shape,))
        return out
    try:
        ri = int(r)
        if ri != r or not (0 <= ri <= N):
            out.append("r=%r out of range" % (r,))
            return out
    except Exception:
        return ["r=%r not integral" % (r,)]
    if not np.all((gs == 0) | (gs == 1)):
        out.append("gs not binary")
        return out
    if not np.all(ps == np.round(ps)):
        out.append("ps not integral")
        return out
    psi = np.asarray(ps).astype(np.int64) % 4
    if np.any(psi[ri:N] % 2 != 0):
        out.append("active stabilizer with imaginary phase")
    elif np.any(psi % 2 != 0):
        out.append("tableau row with imaginary phase (standby or destabilizer row is not a Hermitian operator)")
    if not np.array_equal(anti_mat(gs.astype(np.int64)), tableau_pattern(N)):
        out.append("rows do not satisfy canonical (anti)commutation pattern")
    return out


def canon_group(gs, ps):
    """row-reduced signed generators of the group generated by commuting Hermitian rows.
    returns (tuple of (tuple g, p), ok) ; ok False when -I or an odd phase shows up."""
    rows = [(np.asarray(g).astype(np.int64) % 2, int(p) % 4) for g, p in zip(gs, ps)]
    ncol = len(rows[0][0]) if rows else 0
    piv = 0
    for c in range(ncol):
        idx = None
        for i in range(piv, len(rows)):
            if rows[i][0][c]:
                idx = i
                break
        if idx is None:
            continue
        rows[piv], rows[idx] = rows[idx], rows[piv]
        for i in range(len(rows)):
            if i != piv and rows[i][0][c]:
                g, p = mul(rows[i][0], rows[i][1], rows[piv][0], rows[piv][1])
                rows[i] = (g, int(p))
        piv += 1
    ok = all(p % 2 == 0 for _, p in rows) and all(p == 0 for g, p in rows[piv:])
    return tuple((tuple(int(v) for v in g), int(p)) for g, p in rows[:piv]), ok


def state_key(gs, ps, r):
    gs = np.asarray(gs)
    N = gs.shape[1] // 2
    cg, ok = canon_group(gs[int(r):N], np.asarray(ps)[int(r):N])
    return (int(r), cg, ok)


def group_contains(canon, g):
    """if string g is in the group spanned by canon (RREF rows), return its phase in the group, else None."""
    og = np.zeros(len(g), dtype=np.int64)
    op = 0
    g = np.asarray(g).astype(np.int64) % 2
    rem = g.copy()
    for cg, cp in canon:
        cg = np.array(cg)
        c = int(np.nonzero(cg)[0][0])
        if rem[c]:
            og, op = mul(og, op, cg, cp)
            op = int(op)
            rem = (rem + cg) % 2
    if rem.any():
        return None
    return op


def random_tableau(rng, N, r=None, nrot=None):
    """a valid signed tableau (gs, ps, r) built by the oracle alone: canonical tableau
    (Z_a stabilizers, X_a destabilizers) pushed through random rotations, random signs on all rows."""
    gs = np.zeros((2 * N, 2 * N), dtype=np.int64)
    for a in range(N):
        gs[a, 2 * a + 1] = 1
        gs[N + a, 2 * a] = 1
    ps = np.zeros(2 * N, dtype=np.int64)
    k = nrot if nrot is not None else 3 * N + 2
    for _ in range(int(rng.integers(0, k + 1))):
        G = rng.integers(0, 2, 2 * N)
        if not G.any():
            continue
        gs, ps = rot_image(G, 2 * int(rng.integers(0, 2)), gs, ps)
    ps = (ps + 2 * rng.integers(0, 2, 2 * N)) % 4
    if r is None:
        r = int(rng.integers(0, N + 1))
    return gs, ps, int(r)


def tableau_from_map(mgs, mps, r=0):
    N = len(mgs) // 2
    gs = np.zeros_like(np.asarray(mgs))
    ps = np.zeros(2 * N, dtype=np.int64)
    for k in range(N):
        gs[k] = mgs[2 * k + 1]
        ps[k] = mps[2 * k + 1]
        gs[N + k] = mgs[2 * k]
        ps[N + k] = mps[2 * k]
    return gs, ps, r


# ---------------------------------------------------------------- entropy
def entropy_gf2(stab_gs, N, A):
    A = sorted(set(int(a) for a in A))
    stab_gs = np.asarray(stab_gs).reshape(-1, 2 * N)
    L = len(stab_gs)
    if L == 0:
        return len(A)
    B = [q for q in range(N) if q not in A]
    cols = [c for q in B for c in (2 * q, 2 * q + 1)]
    if not cols:
        return len(A) - L
    return len(A) - (L - gf2rank(stab_gs[:, cols]))


def entropy_dense(gs, ps, r, A):
    gs = np.asarray(gs)
    N = gs.shape[1] // 2
    A = sorted(set(int(a) for a in A))
    if not A:
        return 0.0
    return vn_entropy(ptrace(rho(gs, ps, r), N, A))


# ---------------------------------------------------------------- measurement (group level)
class GroupState(object):
    """stabilizer state as (N, list of signed commuting independent generators). rank r = N - len."""

    def __init__(self, N, gens):
        self.N = N
        self.gens = [(np.asarray(g).astype(np.int64) % 2, int(p) % 4) for g, p in gens]

    @classmethod
    def from_tableau(cls, gs, ps, r):
        gs = np.asarray(gs)
        N = gs.shape[1] // 2
        return cls(N, [(gs[a], ps[a]) for a in range(int(r), N)])

    @property
    def r(self):
        return self.N - len(self.gens)

    def key(self):
        cg, ok = canon_group([g for g, _ in self.gens], [p for _, p in self.gens])
        return (self.r, cg, ok)

    def classify(self, g, p):
        """('det', eigenvalue_outcome_bit) | ('anti', None) | ('logical', None)"""
        for sg, sp in self.gens:
            if anti(sg, g):
                return ('anti', None)
        cg, _ = canon_group([x for x, _ in self.gens], [y for _, y in self.gens])
        ph = group_contains(cg, g)
        if ph is None:
            return ('logical', None)
        # group holds i^ph sigma[g]; observable is i^p sigma[g]; eigenvalue = i^(ph-p)
        return ('det', ((ph - int(p)) % 4) // 2)

    def project(self, g, p, outcome_bit):
        """post-measurement state for outcome (+1: bit 0, -1: bit 1) of observable (g,p).
        returns probability (0, 0.5 or 1)."""
        kind, bit = self.classify(g, p)
        newp = (int(p) + 2 * int(outcome_bit)) % 4
        if kind == 'det':
            return 1.0 if bit == outcome_bit else 0.0
        if kind == 'logical':
            self.gens.append((np.asarray(g).astype(np.int64) % 2, newp))
            return 0.5
        first = None
        out = []
        for sg, sp in self.gens:
            if anti(sg, g):
                if first is None:
                    first = (sg, sp)
                    continue
                ng, np_ = mul(sg, sp, first[0], first[1])
                out.append((ng, int(np_)))
            else:
                out.append((sg, sp))
        out.append((np.asarray(g).astype(np.int64) % 2, newp))
        self.gens = out
        return 0.5

    def copy(self):
        return GroupState(self.N, [(g.copy(), p) for g, p in self.gens])

    def apply_rot(self, G, PG):
        self.gens = [(lambda r: (r[0], int(r[1])))(rot_image(G, PG, g, p)) for g, p in self.gens]

    def apply_map(self, mgs, mps):
        self.gens = [map_image(mgs, mps, g, p) for g, p in self.gens]

    def expect(self, g, p):
        kind, bit = self.classify(g, p % 2 * 0 + (int(p) // 2) * 2)
        if kind != 'det':
            return 0
        return (1j ** (int(p) % 2)) * (-1) ** bit

    def rho(self):
        D = 2 ** self.N
        out = np.eye(D, dtype=complex)
        for g, p in self.gens:
            out = out @ (np.eye(D) + dense(g, p)) / 2
        return out / 2 ** self.r


def self_test():
    """cross-validation of the three layers; returns list of problems (empty = ok)."""
    bad = []
    rng = np.random.default_rng(12345)
    # table vs dense products and anticommutation, N=1 exhaustive, N=2..3 sampled
    for N in (1, 2, 3):
        S = all_strings(N)
        for _ in range(200 if N > 1 else 0):
            a = S[rng.integers(len(S))]
            b = S[rng.integers(len(S))]
            pa, pb = int(rng.integers(4)), int(rng.integers(4))
            g, p = mul(a, pa, b, pb)
            if not close(dense(a, pa) @ dense(b, pb), dense(g, p)):
                bad.append("mul N=%d" % N)
            A, B = dense(a), dense(b)
            if bool(anti(a, b)) != close(A @ B, -B @ A):
                bad.append("anti N=%d" % N)
        if N == 1:
            for a in S:
                for b in S:
                    for pa in range(4):
                        for pb in range(4):
                            g, p = mul(a, pa, b, pb)
                            if not close(dense(a, pa) @ dense(b, pb), dense(g, p)):
                                bad.append("mul N=1")
    # hermiticity of bare strings
    for g in all_strings(2):
        M = dense(g)
        if not close(M, M.conj().T):
            bad.append("hermitian")
    # rotation rule vs dense conjugation
    for _ in range(100):
        N = int(rng.integers(1, 4))
        G = rng.integers(0, 2, 2 * N)
        if not G.any():
            continue
        PG = 2 * int(rng.integers(2))
        g = rng.integers(0, 2, 2 * N)
        p = int(rng.integers(4))
        U = rot_unitary(G, PG)
        ig, ip = rot_image(G, PG, g, p)
        if not close(U.conj().T @ dense(g, p) @ U, dense(ig, ip)):
            bad.append("rot_image")
    # counts of symplectic matrices, map validity and unitary, inverse, compose
    if len(symplectic_matrices(1)) != 6:
        bad.append("|Sp(2,2)|")
    for _ in range(30):
        N = int(rng.integers(1, 4))
        gs, ps = random_map(rng, N)
        if not map_valid(gs, ps):
            bad.append("random_map invalid")
        V = unitary_from_map(gs, ps)
        if V is None or not close(V.conj().T @ V, np.eye(2 ** N)):
            bad.append("unitary_from_map")
            continue
        g = rng.integers(0, 2, 2 * N)
        p = int(rng.integers(4))
        ig, ip = map_image(gs, ps, g, p)
        if not close(V @ dense(g, p) @ V.conj().T, dense(ig, ip)):
            bad.append("map_image vs unitary")
        Lg = rng.integers(0, 2, (5, 2 * N))
        Lp = rng.integers(0, 4, 5)
        vg, vp = map_image_list(gs, ps, Lg, Lp)
        for j in range(5):
            sg, sp = map_image(gs, ps, Lg[j], Lp[j])
            if not (np.array_equal(sg, vg[j]) and sp == vp[j]):
                bad.append("map_image_list vs map_image")
        igs, ips = map_inverse(gs, ps)
        cg, cp = map_compose(gs, ps, igs, ips)
        eg, ep = map_identity(N)
        if not (np.array_equal(cg, eg) and np.array_equal(cp % 4, ep)):
            bad.append("map_inverse right")
        cg, cp = map_compose(igs, ips, gs, ps)
        if not (np.array_equal(cg, eg) and np.array_equal(cp % 4, ep)):
            bad.append("map_inverse left")
    # entropy: gf2 vs dense
    for _ in range(40):
        N = int(rng.integers(1, 5))
        gs, ps, r = random_tableau(rng, N)
        if tableau_problems(gs, ps, r):
            bad.append("random_tableau invalid")
        A = [q for q in range(N) if rng.integers(2)]
        e1 = entropy_gf2(gs[r:N], N, A)
        e2 = entropy_dense(gs, ps, r, A)
        if abs(e1 - e2) > 1e-7:
            bad.append("entropy gf2 vs dense")
        R = rho(gs, ps, r)
        if not (close(R, R.conj().T) and abs(np.trace(R) - 1) < 1e-9 and close(R @ R, R / 2 ** r)):
            bad.append("rho not a normalised projector")
        # group projection vs dense projection
        G = GroupState.from_tableau(gs, ps, r)
        g = rng.integers(0, 2, 2 * N)
        p = 2 * int(rng.integers(2))
        bit = int(rng.integers(2))
        Pi = (np.eye(2 ** N) + (-1) ** bit * dense(g, p)) / 2
        pr_d = float(np.real(np.trace(Pi @ R)))
        pr = G.project(g, p, bit)
        if abs(pr - pr_d) > 1e-9:
            bad.append("group prob")
        elif pr > 0 and not close(G.rho(), Pi @ R @ Pi / pr_d):
            bad.append("group post state")
    return sorted(set(bad))


if __name__ == "__main__":
    print(self_test() or "oracle self-test ok")
