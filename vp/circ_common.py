"""Shared machinery of the circuit-level checks (C09, C10, C14): building the 18 configurations of a program
and producing inputs of every kind."""
import numpy as np

from . import oracle as O
from . import gen
from . import programs as PR

VARIANTS = ("built", "copy", "composed")
COMPILE = ("none", "layers", "circuit")


def new_circuit(B, cls, N):
    if cls == "CliffordCircuit":
        return B.circuit.identity_circuit(N)
    return B.circuit.Circuit(N)


def build(B, cls, prog, N):
    circ = new_circuit(B, cls, N)
    gates = [PR.make_gate(B, s, N) for s in prog]
    for g in gates:
        circ.take(g)
    return circ, gates


def configure(B, cls, prog, N, variant, comp):
    """returns (circuit, inserted gate objects in insertion order)."""
    if variant == "composed":
        h = len(prog) // 2
        c1, g1 = build(B, cls, prog[:h], N) if h else (new_circuit(B, cls, N), [])
        c2, g2 = build(B, cls, prog[h:], N)
        if cls == "Circuit":
            # Circuit has no compose(): documented composition is re-taking the gates
            for layer in c2.layers_forward():
                for g in layer.gates:
                    c1.take(g)
            circ = c1
        else:
            circ = c1.compose(c2)
        gates = g1 + g2
    else:
        circ, gates = build(B, cls, prog, N)
    if comp == "layers":
        for layer in circ.layers_forward():
            layer.compile(N)
    elif comp == "circuit":
        if cls == "CliffordCircuit":
            circ.compile(N)
        else:
            circ.compile()
    if variant == "copy":
        if not hasattr(circ, "copy"):
            return None, None
        circ = circ.copy()
        gates = None  # copies hold new gate objects
    return circ, gates


def inputs(B, N, rng, kinds=("pauli", "list", "poly", "map", "state")):
    """(kind, library object, rows gs, ps, extra) with random signs / ranks / coefficients."""
    out = []
    for k in kinds:
        if k == "pauli":
            g, p = gen.rand_string(rng, N), int(rng.integers(4))
            out.append((k, B.Pauli(g.copy(), p), g[None, :].copy(), np.array([p]), None))
        elif k == "list":
            L = int(rng.integers(1, 7))
            gs, ps = gen.rand_list(rng, L, N), rng.integers(0, 4, L)
            out.append((k, B.PauliList(gs.copy(), ps.copy()), gs, ps, None))
        elif k == "poly":
            L = int(rng.integers(1, 6))
            gs, ps, cs = gen.rand_list(rng, L, N), rng.integers(0, 4, L), gen.rand_coeffs(rng, L)
            out.append((k, B.Poly(gs.copy(), ps.copy(), cs.copy()), gs, ps, cs))
        elif k == "map":
            mg, mp = O.random_map(rng, N)
            out.append((k, B.Map(mg.copy(), mp.copy()), mg, mp, None))
        elif k == "state":
            tg, tp, r = O.random_tableau(rng, N)
            out.append((k, B.State(tg.copy(), tp.copy(), r), tg, tp, r))
    return out


def clone_input(B, item):
    k, obj, gs, ps, extra = item
    if k == "pauli":
        return B.Pauli(gs[0].copy(), int(ps[0]))
    if k == "list":
        return B.PauliList(gs.copy(), ps.copy())
    if k == "poly":
        return B.Poly(gs.copy(), ps.copy(), extra.copy())
    if k == "map":
        return B.Map(gs.copy(), ps.copy())
    return B.State(gs.copy(), ps.copy(), extra)


def read(B, kind, obj):
    """(gs, ps mod 4, extra) of a library object of the given kind."""
    if kind == "pauli":
        g, p = B.gp(obj)
        return g[None, :], np.array([p]), None
    if kind == "state":
        g, p, r = B.state(obj)
        return g, p, r
    g, p = B.gsps(obj)
    if kind == "poly":
        return g, p, B.cnp(obj.cs)
    return g, p, None


def same(a, b):
    if a[0].shape != b[0].shape or not np.array_equal(a[0], b[0]) or not np.array_equal(a[1] % 4, b[1] % 4):
        return False
    if a[2] is None or b[2] is None:
        return a[2] is None and b[2] is None
    if np.ndim(a[2]) == 0:
        return a[2] == b[2]
    return np.allclose(a[2], b[2], atol=1e-6)


def show_rows(x):
    return {"rows": [O.show(g, p) for g, p in zip(x[0][:10], x[1][:10])], "extra": x[2]}
