"""Shared check of StabilizerState.density_matrix (the Pauli expansion of rho) for any group size."""
import numpy as np

from . import oracle as O


def check_dm(rec, B, sub, tg, tp, r, rng, case):
    N = tg.shape[1] // 2
    k = N - r
    S = B.State(tg.copy(), tp.copy(), r)
    ok, DM = rec.attempt(sub, case, lambda: S.density_matrix)
    if not ok:
        return
    dg, dp, dc = B.np(DM.gs).reshape(-1, 2 * N), B.ph(DM.ps), B.cnp(DM.cs)
    if N <= 5:
        rec.check(sub, len(dg) == 2 ** k and O.close(O.dense_poly(dg, dp, dc), O.rho(tg, tp, r), 1e-9 if B.name == "np" else 1e-5), case, k > 0,
                  expected="dense rho", observed={"terms": len(dg)})
        return
    uniq = np.unique(dg, axis=0)
    cg, _ = O.canon_group(tg[r:N], tp[r:N])
    pick = uniq[rng.integers(0, len(uniq), 60)] if len(uniq) else uniq
    inside = O.gf2rank(np.concatenate([tg[r:N], pick])) == k
    wts = bool(np.allclose(np.abs(dc), 2.0 ** (-N), rtol=1e-5))
    signs = True
    for j in rng.integers(0, len(dg), 80) if len(dg) else []:
        ph = O.group_contains(cg, dg[j])
        if ph is None or abs(dc[j] * 1j ** int(dp[j]) - (1j ** ph) * 2.0 ** (-N)) > 1e-6 * 2.0 ** (-N):
            signs = False
            break
    rec.check(sub, len(dg) == 2 ** k and len(uniq) == 2 ** k and inside and wts and signs, case, True,
              expected="%d distinct group elements, weight 2^-N, right signs" % 2 ** k,
              observed={"terms": len(dg), "distinct": len(uniq), "in_group": bool(inside), "weights": wts, "signs": bool(signs)})
