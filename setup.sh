#!/bin/sh
# offline setup: nothing to build; optional contract libraries go into a git-ignored directory.
cd "$(dirname "$0")" || exit 1
/venv/bin/python -c "import numpy, numba, torch, qutip" || exit 1
/venv/bin/pip install -q --no-index --find-links /opt/veriftools/wheels --target .deps icontract >/dev/null 2>&1 || true
exit 0
