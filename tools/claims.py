"""Per-property claim texts for MANIFEST.json (consumed by tools/mkmanifest.py)."""
_NOTE = ("trusted base: the reference model in vp/oracle.py (self-tested on every run: dense vs table vs GF(2) layers), "
         "numpy, the interpreter; only executions produced by the workload are judged")
CLAIMS = {
 "C01": {
  "text": "Every ordered pair of operators (all strings x all four phases) for N<=3 is multiplied by the real code "
          "(numba JIT with bounds checking, interpreted kernels, and torch) and compared with two independent oracles "
          "(dense Kronecker matrices, one-qubit multiplication table); hostile random pairs up to 64 qubits, chains "
          "checked at every step for phase drift, associativity triples, squares, pauli_combine/batch_dot/polynomial "
          "products. Exhaustive below N=4, sampled above: 'held on what was observed'.",
  "note": _NOTE,
  "technique": "runtime monitoring: differential oracle over exhaustive small-N + hostile random executions",
 },
}
NOT_APPLICABLE = {}
