"""Per-property claim texts for MANIFEST.json (consumed by tools/mkmanifest.py)."""
_NOTE = ("trusted base: the reference model in vp/oracle.py (dense Kronecker matrices / one-qubit table / own GF(2) algebra, "
         "cross-checked against each other in every worker before the workload starts), numpy, CPython; only executions produced "
         "by the workload are judged; verdict 'held on what was observed', never 'verified'")
_T = "runtime monitoring: "


_COMMON = (" Cross-cutting shards added while validating against 215+ deliberately broken variants (DESIGN.md section 8): registers "
           "of 31..256 qubits (entropy: 2100) and lists up to 70001 rows (rotations: 2^20+1) around machine-word / block / half-precision "
           "thresholds (table / GF(2) / group oracles), random legal memory layouts and element types (uint8..uint64, float32/64; answers "
           "judged, refusals counted) of every array handed to the library, unusual-but-legal argument types, histories on one live "
           "object with re-observation of earlier results and arguments, both numba execution modes (JIT with bounds checking, interpreted) and python -O, read-only argument arrays; line coverage of the anchor files under the monitors is recorded in the evidence.")


def _c(text, technique, note=_NOTE):
    return {"text": text + _COMMON, "technique": _T + technique, "note": note}


CLAIMS = {
 "C01": _c("Every ordered pair of operators (all strings x all four phases) for N<=3 is multiplied by the real code (numba JIT with bounds "
           "checking, interpreted kernels, torch) and compared with two independent oracles (dense matrices, one-qubit table); hostile "
           "random pairs up to 64 qubits, chains checked at every step for phase drift, associativity triples, squares, pauli_combine / "
           "batch_dot / polynomial products. Exhaustive below N=4, sampled above.",
           "oracle comparison of every product over exhaustive small-N and hostile random executions; stepwise trace check of chains"),
 "C02": _c("All signed generators x all operands x all receiver kinds (Pauli, list, polynomial, map, state) for N<=2, all masks x all "
           "generators of matching size for N=3, random cases to 40 qubits; result compared with the table rule and with dense U^dag P U; "
           "untouched columns compared bitwise; undo and order-four histories.",
           "postcondition oracle (dense conjugation + table rule) on rotate_by of every receiver kind; bitwise locality monitor"),
 "C03": _c("All 24 one-qubit and all 11520 two-qubit maps (oracle-enumerated) applied by the real transform_by to generators and operators; "
           "identity, generator images, multiplicativity (library product vs library transform), commutation / Hermiticity / squares, "
           "coefficients, masked application vs embed, rotation map vs rotation; an explicit unitary is constructed for N<=3 and must "
           "conjugate every operator to the library's image.",
           "oracle comparison over the exhaustively enumerated small Clifford groups + constructive unitary witness"),
 "C04": _c("All 576 pairs and 13824 triples of one-qubit maps; every two-qubit map for the inverse laws on both sides and composed with a "
           "generating set and random partners; random maps to 8 qubits; results compared with the oracle's own composition/inverse, "
           "operand snapshots before/after, result/operand memory overlap.",
           "group-law monitors over exhaustive N=1 / N=2 map spaces with differential oracle, snapshot and aliasing monitors"),
 "C05": _c("Invariant-at-a-hook on the real StabilizerState class (every public method) plus explicit checks: from every valid tableau "
           "for N=1 (48) and N=2 (quick: every second of the 34560, offset by the seed; thorough: all) every operation of the public alphabet is "
           "applied once and the successor's tableau checked - with the constructor checks this is the inductive step of the invariant over all "
           "histories for N<=2; BFS reachability from the constructors (thorough: closes at 34560 tableaux / 91 density matrices); random walks "
           "of 200/2000 operations for N=3..8; both coin values scripted in interpreted mode; all arms of the rank-reduction swap logic "
           "must be observed.",
           "invariant hooks on hooked state after every call; one-step closure over the enumerated tableau space; random-walk histories"),
 "C06": _c("Every call of the real measure() is replayed on a stabilizer-group oracle with the observed outcomes: determined outcomes, "
           "log2prob, post-state (dense and canonical signed group), rank, repetition; all coin schedules of k-observable lists are "
           "enumerated in interpreted mode by scripting numpy.random.randint; both arms and fairness (exact binomial, alpha 1e-9) "
           "in JIT mode; all structural classes (determined / anti / logical / standby-row-first) must be populated.",
           "trace replay of recorded outcomes against a projection oracle; schedule enumeration by scripting the kernel's coin"),
 "C07": _c("expect() on lists, Paulis of all four phases, monomials, polynomials (incl. unreduced products), other states, and get_prob() "
           "on every bit string, for every valid N=1 tableau, a stride over all N=2 tableaux, random signed states of every rank to N=6, "
           "both packages; compared with dense traces; receiver/argument snapshots.",
           "oracle comparison (dense traces) + side-effect snapshots on every query"),
 "C08": _c("entropy() in index and mask form for all subsystems of every N<=2 tableau stride and random signed states of every rank "
           "(dense eigenvalue oracle N<=6, own GF(2) formula to N=20, the two cross-checked), regauged generator sets, local Cliffords "
           "inside/outside, complement, empty/full, GHZ family; both packages.",
           "two independent oracles (partial-trace eigenvalues, GF(2) rank) over exhaustive subsystems; metamorphic regauging monitors"),
 "C09": _c("Random gate programs (<=40 gates, N<=6, every gate specification kind, adversarial layering shapes) executed in all 18 "
           "configurations {uncompiled, layers compiled, circuit compiled} x {CliffordCircuit, Circuit} x {built, copy, composed} on "
           "inputs of every kind and compared with fresh gates applied one at a time and with the oracle's composite map; take() "
           "structure checked against the layer-order trace specification; per-gate locality.",
           "differential execution across configurations + offline trace-specification check of the layer structure"),
 "C10": _c("backward(forward(x)) and forward(backward(x)) compared bitwise with x for every named/indexed gate at every placement "
           "(N<=2, all operators, tableau stride), single gates of every kind, directly built layers, and random programs in all 18 "
           "configurations, inputs of every kind; both packages.",
           "round-trip monitors over exhaustive gate tables and random programs in all configurations"),
 "C11": _c("Finite tables checked exhaustively: H,S,X,Y,Z,CNOT (both orientations) against textbook conjugation tables and literal "
           "dense unitaries at every placement N<=4 (thorough N<=8); the 24 indexed gates pairwise distinct, valid, covering the group, "
           "closed under compose and inverse; bad indices / qubit counts must raise ValueError.",
           "exhaustive table oracle + dense unitary oracle; refusal monitors"),
 "C12": _c("to_state/to_map round trip and dense value for all N=1 and a stride of N=2 maps x ranks and random maps to N=6; every "
           "named constructor N<=6 against its documented density matrix; to_qutip; stabilizer_state for every length, all sign "
           "patterns (N<=3), six input formats; anticommuting input must raise; both packages.",
           "oracle comparison (constructive unitary, dense projectors) over enumerated maps and sign patterns"),
 "C13": _c("Differential monitoring: identical well-formed inputs are fed to the same-named kernel / method of pyclifford and "
           "torchclifford (28 kernels, ~70 class-level operations, all 9 circuit configurations forward and backward, diagonalize) and "
           "normalised outputs compared; a one-sided exception is a disagreement.",
           "differential execution of the two implementations with normalising comparator"),
 "C14": _c("MeasureLayer on every ordered Z-subset of an N<=2 tableau stride (both coins scripted in interpreted mode), random circuits "
           "interleaving gates and measurement layers replayed on the group oracle with the recorded outcomes (record growth, log2prob, "
           "state, rank), take() traces with measurement layers, post-selection of every signed Pauli x both results, backward with "
           "recorded / possible / impossible records (ValueError expected).",
           "trajectory replay of recorded outcomes; trace-specification check of take(); refusal monitors"),
 "C15": _c("Every operator on every ordered type pair: all single-term operands for N=1, then generated expression trees (depth<=4, "
           "complex coefficients, all phases, cancelling terms); each node's object is read out as a dense matrix and compared with the "
           "matrix expression of its operands' own matrices; reduce (merge / phases / tolerance), trace, to_qutip, linearity; both packages. "
           "Known finding K1 (Pauli/Monomial.trace ignores the phase; pinned by a baseline test) is reported, not suppressed for other mechanisms.",
           "node-local oracle comparison over generated expression trees"),
 "C16": _c("Every sample of every sampler and of states pushed through the random-circuit constructors is validity-checked (hard "
           "verdict); uniformity by exact chi-square / binomial tests at alpha=1e-9: 24 one-qubit elements, 720 two-qubit classes (all "
           "must be seen) x 16 sign patterns, 576 Pauli-map elements, N=3 entangling fraction 2/3, sign bits, resampling of map-less "
           "gates; both packages.",
           "validity invariant on every sample + exact statistical monitors over the enumerated finite groups"),
 "C17": _c("For every object kind: copy() deep-snapshot equality, no shared memory, and mutate-one/observe-other histories; every query "
           "of the property's list and every in-place operation with bitwise snapshots of receiver and arguments before/after.",
           "bitwise snapshot and memory-aliasing monitors around every public method"),
 "C18": _c("diagonalize for every non-identity string x phases x targets x causal (N<=4), gate supports and bitwise columns in causal "
           "mode; signed pure states (all N=1, N=2 stride, random to N=6) forward to |0..0> and backward; SBRG on commuting (exactness, "
           "spectrum) and arbitrary real Hamiltonians (diagonal form); both packages for diagonalize.",
           "postcondition oracle on returned circuits (target string, support, dense spectrum)"),
 "C19": _c("Samples checked for group membership with sign (oracle canonical group and library expect), chi-square uniformity on "
           "groups <=64, density_matrix term by term and dense; classical-shadow snapshots with on-site / global / brick-wall / fixed "
           "circuits: a hook on circuit.povm records the basis that produced each snapshot; validity, overlap with the base, basis "
           "stabilisation, base untouched.",
           "oracle membership/sign checks, statistical monitor, recording hook on the measurement-basis generator"),
 "C20": _c("All strings x 4 phases (N<=3 quick, N<=5 thorough) through every accepted description (6 prefixes, code arrays with "
           "phase code leading/trailing as list/tuple/ndarray/tensor, dict+N), repr and token round trips, attributes, negation and the "
           "four unit scalars; random lists with integer / slice / mask / index-array selection against numpy semantics; both packages.",
           "exhaustive format grid against the oracle's own string reading"),
}
NOT_APPLICABLE = {}
