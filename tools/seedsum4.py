#!/usr/bin/env python3
import json,glob,sys,os
d0=sys.argv[1] if len(sys.argv)>1 else '/tmp/seedres4'
for f in sorted(glob.glob(d0+'/*.json')):
    try:
        d=json.load(open(f))
    except Exception as e:
        print(os.path.basename(f),'(running or bad)'); continue
    dc=d.get('demo_clean',{}).get('rc'); dp=d.get('demo_patched',{}).get('rc')
    b=(d.get('baseline',{}).get('summary') or ['?'])[0]
    print(os.path.basename(f)[:-5], 'demo %s/%s'%(dc,dp), b[-6:], 'CAUGHT' if d.get('caught_by') else 'MISSED', {k:(v['rc'],v['subs'][:5]) for k,v in d.get('checks',{}).items()})
