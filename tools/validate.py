#!/usr/bin/env python3
"""python3-vt tools/validate.py : validate MANIFEST.json and every evidence file against the schemas."""
import json, glob, os, sys
import jsonschema
H = os.path.dirname(os.path.dirname(os.path.abspath(__file__)))
ms = json.load(open("/root/.vp/MANIFEST.schema.json")); es = json.load(open("/root/.vp/EVIDENCE.schema.json"))
m = json.load(open(os.path.join(H, "MANIFEST.json")))
jsonschema.validate(m, ms)
bad = 0
ids = [json.loads(l)["id"] for l in open(os.path.join(H, "properties.jsonl"))]
claimed = [c["property_id"] for c in m["checks"]]
na = [n["property_id"] for n in m.get("not_applicable", [])]
assert sorted(claimed + na) == sorted(ids), "claimed + not_applicable must cover all properties exactly once"
for c in m["checks"]:
    f = os.path.join(H, c["evidence_file"])
    try:
        e = json.load(open(f)); jsonschema.validate(e, es)
        cov = e["coverage"]
        print("%s ok  tier=%s evals=%d distinct=%d viol=%d wall=%.0fs verdict=%s" % (c["property_id"], e["tier"], cov["evaluations"], cov["distinct_nontrivial"], e.get("violations", 0), e["wall_s"], cov.get("verdict")))
    except Exception as ex:
        bad += 1; print(c["property_id"], "INVALID", str(ex)[:200])
sys.exit(1 if bad else 0)
