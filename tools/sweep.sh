#!/bin/sh
# seed sweep of one tier: tools/sweep.sh quick "1 2 3"
cd "$(dirname "$0")/.." || exit 2
TIER=${1:-quick}; SEEDS=${2:-"1 2 3"}
for s in $SEEDS; do
 for p in C01 C02 C03 C04 C05 C06 C07 C08 C09 C10 C11 C12 C13 C14 C15 C16 C17 C18 C19 C20; do
  VERIF_SEED=$s ./check $p --tier $TIER --no-evidence 2>&1 | grep -E "^(HELD|VIOLAT|INCONCL)" | tr '\n' ' '; echo
 done
done
