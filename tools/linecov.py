#!/usr/bin/env python3
"""tools/linecov.py : prints, from evidence/*.json, the anchored functions whose lines were not all executed under the monitors."""
import json, glob, os
H = os.path.dirname(os.path.dirname(os.path.abspath(__file__)))
for f in sorted(glob.glob(os.path.join(H, "evidence", "C*.json"))):
    d = json.load(open(f))
    lc = d["coverage"].get("lines_of_anchor_files_executed_under_the_monitors", {})
    print(d["property_id"], d["tier"])
    for rel, v in lc.items():
        if not isinstance(v, dict):
            print("  ", rel, v); continue
        print("   %-28s %4d/%4d lines, %d/%d functions fully" % (rel, v["executed_lines"], v["executable_lines"], v["functions_fully_executed"], v["functions"]))
        for name, a in v["anchored_functions"].items():
            if a["never_executed"]:
                print("       %-45s %3d/%3d  never: %s" % (name, a["executed"], a["lines"], a["never_executed"]))
