#!/bin/sh
# runs every own mutant against the quick check of its property; one summary line each
cd "$(dirname "$0")/.." || exit 2
OUT=${1:-/tmp/mutants.log}
: > $OUT
for d in mutants/*/; do
  n=$(basename $d)
  python3 tools/seedtest.py $d --no-tests > /tmp/mut_$n.json 2>&1
  python3 - "$n" /tmp/mut_$n.json >> $OUT <<'PY'
import json,sys
n,f=sys.argv[1],sys.argv[2]
try:
    d=json.load(open(f))
    c=d.get("checks",{})
    print(n, d.get("property"), "CAUGHT" if d.get("caught_by") else "MISSED", {k:(v["rc"],v["subs"][:5]) for k,v in c.items()})
except Exception as e:
    print(n,"ERROR",e, open(f).read()[-300:])
PY
done
