#!/usr/bin/env python3
import json,glob,sys,os
for f in sorted(glob.glob('/tmp/seedres3/*.json')):
    try:
        d=json.load(open(f))
    except Exception as e:
        print(os.path.basename(f),'(running or bad)'); continue
    dc=d.get('demo_clean',{}).get('rc'); dp=d.get('demo_patched',{}).get('rc')
    b=(d.get('baseline',{}).get('summary') or ['?'])[0]
    print(os.path.basename(f)[:-5], 'demo %s/%s'%(dc,dp), b[-6:], 'CAUGHT' if d.get('caught_by') else 'MISSED', {k:(v['rc'],v['subs'][:6]) for k,v in d.get('checks',{}).items()})
