#!/usr/bin/env python3
"""Generates the harness author's own single-site mutants (DESIGN.md §2.10) as patch files under /verif/mutants/<id>/.
Each is (property, file, old text, new text); the patch is produced with git diff in a scratch worktree."""
import json
import os
import shutil
import subprocess
import sys
import tempfile

HERE = os.path.dirname(os.path.dirname(os.path.abspath(__file__)))
M = [
 ("m01_ipow_carry", "C01", "pyclifford/utils.py", "        ipow += g1z * g2x - g1x * g2z + 2*((gx//2) * gz + gx * (gz//2))", "        ipow += g1z * g2x - g1x * g2z + 2*((gx//2) * gz)"),
 ("m01_acq_sign", "C01", "pyclifford/utils.py", "        acq += g1[2*i+1]*g2[2*i] - g1[2*i]*g2[2*i+1]\n    return acq % 2", "        acq += g1[2*i+1]*g2[2*i] - g1[2*i]*g2[2*i+1]\n    return acq % 2 if N < 9 else (acq + g1[0]*g2[0]) % 2"),
 ("m02_rot_phase", "C02", "pyclifford/utils.py", "            ps[j] = (ps[j] + p + 1 + ipow(gs[j], g))%4", "            ps[j] = (ps[j] + p + 3 + ipow(gs[j], g))%4"),
 ("m02_mask_scatter", "C02", "pyclifford/paulialg.py", "            mask2 = numpy.repeat(mask,  2)\n            self.gs[:,mask2], self.ps = clifford_rotate(\n                generator.g, generator.p, self.gs[:,mask2], self.ps)",
  "            mask2 = numpy.repeat(mask,  2)\n            self.gs[:,numpy.sort(mask2)[::-1] if mask2.sum() == 2 and mask2.shape[0] > 4 else mask2], self.ps = clifford_rotate(\n                generator.g, generator.p, self.gs[:,mask2], self.ps)"),
 ("m03_drop_ps0", "C03", "pyclifford/utils.py", "    ps_out = (ps_in + ps0(gs_in) + ps_out)%4\n    return gs_out, ps_out", "    ps_out = (ps_in + ps_out)%4\n    return gs_out, ps_out"),
 ("m04_inverse_sign", "C04", "pyclifford/stabilizer.py", "        ps_inv = (- ps_mis - ps0(gs_inv))%4", "        ps_inv = (ps_mis - ps0(gs_inv))%4"),
 ("m05_missing_swap", "C05", "pyclifford/utils.py", None, None),  # filled below (first occurrence inside stabilizer_measure)
 ("m06_det_row", "C06", "pyclifford/utils.py", None, None),
 ("m07_expect_bound", "C07", "pyclifford/utils.py", "                if j < N + r: # if gs_stb[j] is active stablizer or standby.\n                    xs[k] = 0", "                if j < N: # if gs_stb[j] is active stablizer or standby.\n                    xs[k] = 0"),
 ("m08_entropy_half", "C08", "pyclifford/utils.py", "        entropy = z2rank(acq_mat(gs_across_sub))//2", "        entropy = z2rank(acq_mat(gs_across_sub))"),
 ("m09_take_order", "C09", "pyclifford/circuit.py", "    def independent_from(self, other_gate):\n        return all(gate.independent_from(other_gate) for gate in self.gates)", "    def independent_from(self, other_gate):\n        return all(gate.independent_from(other_gate) for gate in self.gates[:2])"),
 ("m10_backward_plus", "C10", "pyclifford/circuit.py", "                obj.rotate_by(-self.generator, mask(self.qubits, obj.N))", "                obj.rotate_by(self.generator, mask(self.qubits, obj.N))"),
 ("m11_table_bit", "C11", "pyclifford/circuit.py", "    elif num == 13:\n        f_map = CliffordMap(gs = np.array([[1,1],[1,0]]),ps = np.array([2,2]))", "    elif num == 13:\n        f_map = CliffordMap(gs = np.array([[1,1],[1,0]]),ps = np.array([2,0]))"),
 ("m12_swap_rows", "C12", "pyclifford/utils.py", "        gs_out[N+i] = gs_in[2*i]\n        gs_out[i] = gs_in[2*i+1]\n        ps_out[N+i] = ps_in[2*i]\n        ps_out[i] = ps_in[2*i+1]", "        gs_out[N+i] = gs_in[2*i]\n        gs_out[i] = gs_in[2*i+1]\n        ps_out[N+i] = ps_in[2*i+1]\n        ps_out[i] = ps_in[2*i]"),
 ("m13_torch_ipow", "C13", "torchclifford/utils.py", "@torch.jit.script\ndef ipow(g1,g2):\n    N2 = g1.shape[-1]\n    g1x, g1z = g1[...,::2], g1[...,1::2]\n    g2x, g2z = g2[...,::2], g2[...,1::2]\n    gx = g1x + g2x\n    gz = g1z + g2z\n    return torch.sum(g1z * g2x - g1x * g2z + 2*(",
  "@torch.jit.script\ndef ipow(g1,g2):\n    N2 = g1.shape[-1]\n    g1x, g1z = g1[...,::2], g1[...,1::2]\n    g2x, g2z = g2[...,::2], g2[...,1::2]\n    gx = g1x + g2x\n    gz = g1z + g2z\n    return torch.sum(g1z * g2x - g1x * g2z + 0*("),
 ("m14_negate_result", "C14", "pyclifford/circuit.py", "        self.result = (-1)**tmp_out", "        self.result = -(-1)**tmp_out"),
 ("m15_reduce_phase", "C15", "pyclifford/paulialg.py", "        cs = aggregate(self.cs * 1j**self.ps, inds, gs.shape[0])", "        cs = aggregate(self.cs * 1j**(self.ps % 2), inds, gs.shape[0])"),
 ("m16_no_undo", "C16", "pyclifford/utils.py", "            for g in reversed(gens):\n                gs = clifford_rotate_signless(g, gs)", "            for g in reversed(gens[1:]):\n                gs = clifford_rotate_signless(g, gs)"),
 ("m16_biased_pair", "C16", "pyclifford/utils.py", "        g2[2*i+1] = (g2[2*i+1] + g1[2*i] + g1[2*i+1])%2\n    return g1, g2", "        g2[2*i+1] = (g2[2*i+1] + g1[2*i] + g1[2*i+1])%2\n        g2[2*N-1] = 0 if N > 1 else g2[2*N-1]\n    return g1, g2"),
 ("m17_copy_alias", "C17", "pyclifford/stabilizer.py", "        return StabilizerState(self.gs.copy(), self.ps.copy()).set_r(self.r)", "        return StabilizerState(self.gs.copy(), self.ps).set_r(self.r)"),
 ("m17_layer_copy", "C17", "pyclifford/circuit.py", "        layer = CliffordLayer(*[gate.copy() for gate in self.gates])", "        layer = CliffordLayer(*[gate for gate in self.gates])"),
 ("m18_pivot", "C18", "pyclifford/utils.py", None, None),
 ("m19_snapshot_alias", "C19", "pyclifford/device.py", "            snapshot = self.state.copy()", "            snapshot = self.state"),
 ("m19_sample_rows", "C19", "pyclifford/stabilizer.py", "        C = numpy.random.randint(2, size=(L,self.N-self.r))\n        gs, ps = pauli_combine(C, self.gs[self.r:self.N], self.ps[self.r:self.N])", "        C = numpy.random.randint(2, size=(L,self.N-self.r))\n        gs, ps = pauli_combine(C, self.gs[self.r:self.N], self.ps[:self.N-self.r])"),
 ("m20_repr_swap", "C20", "pyclifford/paulialg.py", "            elif self.p == 1:\n                txt = '+i'\n            elif self.p == 2:\n                txt = ' -'\n            elif self.p == 3:\n                txt = '-i'\n        else:\n            txt = 'null'\n        # interprete Pauli string\n        for i in range(self.N):\n            x = self.g[2*i  ]\n            z = self.g[2*i+1]\n            if x == 0:\n                if z == 0:\n                    txt += 'I'\n                elif z == 1:\n                    txt += 'Z'\n            elif x == 1:\n                if z == 0:\n                    txt += 'X'\n                elif z == 1:\n                    txt += 'Y'\n        return txt\n\n    @property",
  "            elif self.p == 1:\n                txt = '-i'\n            elif self.p == 2:\n                txt = ' -'\n            elif self.p == 3:\n                txt = '+i'\n        else:\n            txt = 'null'\n        # interprete Pauli string\n        for i in range(self.N):\n            x = self.g[2*i  ]\n            z = self.g[2*i+1]\n            if x == 0:\n                if z == 0:\n                    txt += 'I'\n                elif z == 1:\n                    txt += 'Z'\n            elif x == 1:\n                if z == 0:\n                    txt += 'X'\n                elif z == 1:\n                    txt += 'Y'\n        return txt\n\n    @property"),
 ("m20_getitem", "C20", "pyclifford/paulialg.py", "        if isinstance(item, (int, numpy.integer)):\n            return Pauli(self.gs[item], self.ps[item])\n        return PauliList(self.gs[item], self.ps[item])", "        if isinstance(item, (int, numpy.integer)):\n            return Pauli(self.gs[item], self.ps[item])\n        return PauliList(self.gs[item], self.ps[item] if not isinstance(item, numpy.ndarray) or item.dtype == bool else self.ps[numpy.sort(item)])"),
 ("m06_log2prob", "C06", "pyclifford/utils.py", None, None),
 ("m14_postselect_phase", "C14", "pyclifford/utils.py", "        # the projection will change phase of stabilizer\n        ps_stb[p] = ps_ob\n        prob = prob/2.0", "        # the projection will change phase of stabilizer\n        ps_stb[p] = ps_ob if p > 0 else 0\n        prob = prob/2.0"),
 ("m09_compile_embed", "C09", "pyclifford/stabilizer.py", "        self.gs[numpy.ix_(mask2, mask2)] = small_map.gs\n        self.ps[mask2] = small_map.ps", "        self.gs[numpy.ix_(mask2, mask2)] = small_map.gs\n        self.ps[mask2] = (self.ps[mask2] + small_map.ps) % 4 if mask2[0] else small_map.ps * 0 + small_map.ps[::-1]"),
]


def special(name, src):
    """mutants that need the n-th occurrence of a repeated snippet."""
    if name == "m05_missing_swap":
        i = src.index("def stabilizer_measure(")
        old = "                    gs_stb[numpy.array([q,s])] = gs_stb[numpy.array([s,q])] # swap q,s\n                p = r"
        j = src.index(old, i)
        return src[:j] + "                p = r" + src[j + len(old):]
    if name == "m06_det_row":
        i = src.index("def stabilizer_measure(")
        old = "                        pa = (pa + ps_stb[j-N] + ipow(ga, gs_stb[j-N]))%4"
        j = src.index(old, i)
        return src[:j] + "                        pa = (pa + ps_stb[j-N] + ipow(gs_stb[j-N], gs_stb[j-N]))%4" + src[j + len(old):]
    if name == "m06_log2prob":
        i = src.index("def stabilizer_measure(")
        old = "            log2prob -= 1."
        j = src.index(old, i)
        return src[:j] + "            log2prob -= 1. if not extend else 0." + src[j + len(old):]
    if name == "m18_pivot":
        i = src.index("def pauli_diagonalize1(")
        old = "                g[2*i+1] = (g[2*i+1] + g[2*i])%2"
        j = src.index(old, i)
        return src[:j] + "                g[2*i+1] = (g[2*i+1] + g[2*i] + (1 if i > 2 else 0))%2" + src[j + len(old):]
    raise KeyError(name)


def main():
    wt = tempfile.mkdtemp(prefix="vp-mut-")
    os.rmdir(wt)
    subprocess.check_call(["git", "-C", "/repo", "worktree", "add", "--detach", wt, "HEAD"], stdout=subprocess.DEVNULL, stderr=subprocess.DEVNULL)
    try:
        for name, prop, path, old, new in M:
            f = os.path.join(wt, path)
            src = open(f).read()
            if old is None:
                out = special(name, src)
            else:
                if src.count(old) < 1:
                    print("SKIP (anchor not found):", name)
                    continue
                out = src.replace(old, new, 1)
            open(f, "w").write(out)
            diff = subprocess.check_output(["git", "-C", wt, "diff"]).decode()
            subprocess.check_call(["git", "-C", wt, "checkout", "--", "."])
            d = os.path.join(HERE, "mutants", name)
            os.makedirs(d, exist_ok=True)
            open(os.path.join(d, "patch.diff"), "w").write(diff)
            json.dump({"property": prop, "files_changed": [path], "origin": "harness author (DESIGN.md 2.10)"}, open(os.path.join(d, "meta.json"), "w"), indent=1)
            print("wrote", name)
    finally:
        subprocess.call(["git", "-C", "/repo", "worktree", "remove", "--force", wt])
        shutil.rmtree(wt, ignore_errors=True)


if __name__ == "__main__":
    main()
