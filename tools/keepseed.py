#!/usr/bin/env python3
"""tools/keepseed.py <PROP> <k> : copy a confirmed sub-agent change from /tmp/seed/<PROP>/OUT/<k> into seeded/<PROP>-<k>/
with a meta.json recording what was confirmed here (from /tmp/seedres/<PROP>_<k>.json produced by tools/seedtest.py)."""
import json, os, shutil, sys
H = os.path.dirname(os.path.dirname(os.path.abspath(__file__)))
prop, k = sys.argv[1], sys.argv[2]
rnd = sys.argv[3] if len(sys.argv) > 3 else ""
src = "/tmp/seed%s/%s/OUT/%s" % (rnd, prop, k)
res = json.load(open("/tmp/seedres%s/%s_%s.json" % (rnd, prop, k)))
if os.path.exists("/tmp/seedres%s/%s_%s.first.json" % (rnd, prop, k)):      # baseline result of the first (full) run
    res["baseline"] = json.load(open("/tmp/seedres%s/%s_%s.first.json" % (rnd, prop, k))).get("baseline", {})
ok = res.get("applies") and res.get("demo_clean", {}).get("rc") == 0 and res.get("demo_patched", {}).get("rc") == 1 and res.get("baseline", {}).get("rc") == 0
if not ok:
    print("NOT CONFIRMED:", prop, k, {x: res.get(x) for x in ("applies", "demo_clean", "demo_patched", "baseline")}); sys.exit(1)
tag = {"": "", "2": "r2", "3": "r3", "4": "r4", "5": "r5", "6": "r6", "7": "r7", "8": "r8", "9": "r9"}[rnd]
pid = prop[:3]
dst = os.path.join(H, "seeded", "%s-%s%s%s" % (pid, tag, "t" if prop.endswith("t") else "", k))
os.makedirs(dst, exist_ok=True)
shutil.copy(os.path.join(src, "patch.diff"), dst); shutil.copy(os.path.join(src, "demo.py"), dst)
try:
    meta = json.load(open(os.path.join(src, "meta.json")))
except Exception:
    meta = {}
out = {
    "property": prop[:3],
    "origin": "independent sub-agent given only the property text and a scratch worktree" + (
        "; round 2: asked for changes that a small-exhaustive + random-small-N + short-history checker would plausibly miss" if rnd == "2" else
        ("; round 3: told what the checks observe after round 2 (sizes to 130 qubits, memory layouts, live histories) and asked to evade that" + (", torchclifford only" if prop.endswith("t") else "") if rnd in ("3", "4") else
         ("; round 5: as round 3/4 (told what the checks observe: sizes to 130 qubits / 70001 rows, layouts, argument types, live histories, re-targeted gates) and additionally asked for changes that show only after public setters / in-place edits of live gates, maps or circuits" if rnd == "5" else
          ("; round 6: told what the checks observe after round 5 (sizes to 2^20 rows / 2100 qubits, layouts and element types, live histories incl. setters / attribute writes / in-place edits of defining objects, both numba modes, torch port mirrored) and asked for a different kind of blind spot than size or element type" if rnd == "6" else
           ("; round 7: as round 6, additionally told that line coverage is recorded, that refusal paths, direct layer / gate methods, povm / postselect / vectorised entry points, refused calls inside histories, moved and re-used gates, numpy scalars and exact ties are driven" if rnd == "7" else
            ("; round 8: as round 7, additionally told about read-only arguments, result-edit histories, re-used argument objects, structured maps, repeated / negative indices, coin independence and python -O" if rnd in ("8", "9") else "")))))),
    "what_changed": meta.get("what_changed"), "files_changed": meta.get("files_changed"),
    "needs_to_manifest": meta.get("needs_to_manifest"), "why_tests_still_pass": meta.get("why_tests_still_pass"),
    "confirmed_here": {
        "how": "tools/seedtest.py: scratch worktree of /repo HEAD outside /repo and /verif; demo on clean tree, git apply, demo on changed tree, repository baseline (58 stable tests), then ./check with VP_REPO=<scratch>",
        "demo_clean_rc": res["demo_clean"]["rc"], "demo_changed_rc": res["demo_patched"]["rc"],
        "baseline": res["baseline"]["summary"][0],
        "checks_run": {c: {"exit": v["rc"], "sub_checks_fired": v["subs"]} for c, v in res.get("checks", {}).items()},
        "caught_by": res.get("caught_by"),
    },
}
json.dump(out, open(os.path.join(dst, "meta.json"), "w"), indent=1)
print("kept", dst, "caught_by", res.get("caught_by"))
