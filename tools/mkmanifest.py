#!/usr/bin/env python3
"""Regenerates MANIFEST.json from the table below (keeps it schema-valid at all times)."""
import json, os, sys
HERE = os.path.dirname(os.path.dirname(os.path.abspath(__file__)))
sys.path.insert(0, HERE)
from tools.claims import CLAIMS, NOT_APPLICABLE

props = [json.loads(l) for l in open(os.path.join(HERE, "properties.jsonl"))]
ids = [p["id"] for p in props]
checks = []
for pid in ids:
    if pid not in CLAIMS:
        continue
    c = CLAIMS[pid]
    checks.append({
        "property_id": pid,
        "quick_cmd": "./check %s --tier quick" % pid,
        "thorough_cmd": "./check %s --tier thorough" % pid,
        "evidence_file": "evidence/%s.json" % pid,
        "replay_cmd_template": "./check %s --replay {path}" % pid,
        "engine": "vp-runtime-monitor",
        "level_claimed": {"category": "exploration", "text": c["text"], "design_ref": c.get("ref", "DESIGN.md §3 " + pid)},
        "level_note": c["note"],
        "technique": c["technique"],
    })
na = [{"property_id": pid, "reason": NOT_APPLICABLE.get(pid, "check not built yet; see DESIGN.md §7 build order")}
      for pid in ids if pid not in CLAIMS]
m = {
    "version": 1,
    "setup_cmd": "./setup.sh",
    "hooks": {
        "guard": "HONGYEHU_PYCLIFFORD_VERIF",
        "enable": "no source hooks: monitors are attached from outside by wrapping the real classes at run time; "
                  "the workers export HONGYEHU_PYCLIFFORD_VERIF=1 only as a marker",
        "baseline_off_cmd": "cd /repo && /venv/bin/python -m pytest -ra -q -p no:cacheprovider --timeout=900 --continue-on-collection-errors",
        "source_commits": [],
        "add_only": True,
    },
    "engines": [{
        "name": "vp-runtime-monitor", "path": "vp/",
        "serves_properties": [c["property_id"] for c in checks],
        "kind_free_text": "runtime monitoring: the real pyclifford/torchclifford code is executed (numba JIT with "
                          "NUMBA_BOUNDSCHECK=1, interpreted NUMBA_DISABLE_JIT=1, and torch) under exhaustive small-N and "
                          "hostile random workloads; boundary wrappers and invariant hooks on the real classes record "
                          "events; an independent reference model (dense matrices / one-qubit table / GF(2)) is the oracle",
    }],
    "checks": checks,
    "not_applicable": na,
    "notes": "Verdicts are three-valued: exit 0 held on what was observed, exit 1 VIOLATION, exit 2 INCONCLUSIVE "
             "(monitor not reached / worker died). Known findings: KNOWN_FINDINGS.json (read-only at run time).",
}
json.dump(m, open(os.path.join(HERE, "MANIFEST.json"), "w"), indent=1)
try:
    import jsonschema
    jsonschema.validate(m, json.load(open("/root/.vp/MANIFEST.schema.json")))
    print("MANIFEST.json valid:", len(checks), "checks,", len(na), "not claimed")
except ImportError:
    print("MANIFEST.json written (jsonschema not available to validate)")
