#!/usr/bin/env python3
"""Runs the repository's own suite with the guard off and compares with /root/.vp/BASELINE.json stable_pass."""
import json, os, subprocess, sys, tempfile, xml.etree.ElementTree as ET
base = json.load(open("/root/.vp/BASELINE.json"))
out = tempfile.mktemp(suffix=".xml")
env = dict(os.environ); env.pop("HONGYEHU_PYCLIFFORD_VERIF", None); env.pop("NUMBA_DISABLE_JIT", None)
subprocess.run(["/venv/bin/python", "-m", "pytest", "-q", "-p", "no:cacheprovider", "--timeout=900",
                "--continue-on-collection-errors", "--junitxml=" + out], cwd=os.environ.get("VP_REPO", "/repo"), env=env,
               stdout=subprocess.DEVNULL, stderr=subprocess.DEVNULL)
passed = set()
for tc in ET.parse(out).getroot().iter("testcase"):
    if not any(c.tag in ("failure", "error", "skipped") for c in tc):
        passed.add(tc.get("classname") + "::" + tc.get("name"))
os.unlink(out)
missing = [t for t in base["stable_pass"] if t not in passed]
print("stable tests passing: %d/%d" % (len(base["stable_pass"]) - len(missing), len(base["stable_pass"])))
for t in missing: print("  NOT PASSING:", t)
print("extra passing:", sorted(passed - set(base["stable_pass"])))
sys.exit(1 if missing else 0)
