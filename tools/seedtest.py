#!/usr/bin/env python3
"""Validate a seeded change and run checks against it, in a scratch worktree outside /repo and /verif.

usage: tools/seedtest.py <dir with patch.diff [demo.py meta.json]> [--checks C05,C06 | --all] [--no-tests] [--tier quick]
Prints a JSON summary; the scratch worktree is removed afterwards.
"""
import argparse
import json
import os
import shutil
import subprocess
import sys
import tempfile
import time

HERE = os.path.dirname(os.path.dirname(os.path.abspath(__file__)))
PY = "/venv/bin/python"


def sh(cmd, cwd=None, env=None, timeout=3600):
    p = subprocess.run(cmd, cwd=cwd, env=env, stdout=subprocess.PIPE, stderr=subprocess.STDOUT, text=True, timeout=timeout)
    return p.returncode, p.stdout


def main():
    ap = argparse.ArgumentParser()
    ap.add_argument("seed")
    ap.add_argument("--checks", default=None)
    ap.add_argument("--all", action="store_true")
    ap.add_argument("--no-tests", action="store_true")
    ap.add_argument("--tier", default="quick")
    ap.add_argument("--seed-value", default="0")
    a = ap.parse_args()
    seed = os.path.abspath(a.seed)
    patch = os.path.join(seed, "patch.diff")
    meta = {}
    if os.path.exists(os.path.join(seed, "meta.json")):
        try:
            meta = json.load(open(os.path.join(seed, "meta.json")))
        except Exception:
            meta = {}
    wt = tempfile.mkdtemp(prefix="vp-seed-")
    os.rmdir(wt)
    out = {"seed": seed, "property": meta.get("property")}
    try:
        rc, o = sh(["git", "-C", "/repo", "worktree", "add", "--detach", wt, "HEAD"])
        if rc:
            raise RuntimeError(o)
        demo = os.path.join(seed, "demo.py")
        env = dict(os.environ, PYTHONPATH=wt, PYTHONDONTWRITEBYTECODE="1")
        if os.path.exists(demo):
            rc, o = sh([PY, demo], cwd=wt, env=env, timeout=900)
            out["demo_clean"] = {"rc": rc, "tail": o.strip().splitlines()[-2:]}
        rc, o = sh(["git", "apply", patch], cwd=wt)
        out["applies"] = rc == 0
        if rc:
            out["apply_error"] = o[-500:]
            print(json.dumps(out, indent=1))
            return 2
        if os.path.exists(demo):
            rc, o = sh([PY, demo], cwd=wt, env=env, timeout=900)
            out["demo_patched"] = {"rc": rc, "tail": o.strip().splitlines()[-2:]}
        if not a.no_tests:
            t0 = time.time()
            rc, o = sh([sys.executable, os.path.join(HERE, "tools", "baseline.py")], env=dict(os.environ, VP_REPO=wt), timeout=3000)
            out["baseline"] = {"rc": rc, "summary": o.strip().splitlines()[:6], "s": round(time.time() - t0)}
        checks = []
        if a.all:
            checks = ["C%02d" % i for i in range(1, 21)]
        elif a.checks:
            checks = a.checks.split(",")
        elif meta.get("property"):
            # a kept change records which check caught it when it was confirmed (it may live outside its property's anchor files)
            checks = (meta.get("confirmed_here", {}).get("caught_by") or [meta["property"]])
        res = {}
        for c in checks:
            t0 = time.time()
            rc, o = sh([os.path.join(HERE, "check"), c, "--tier", a.tier, "--no-evidence"],
                       env=dict(os.environ, VP_REPO=wt, VERIF_SEED=a.seed_value), timeout=7200)
            lines = [l for l in o.splitlines() if l.startswith(("VIOLATION", "INCONCLUSIVE", "HELD", "VIOLATED"))]
            subs = sorted(set(l.split("sub=")[1].split()[0] for l in lines if "sub=" in l))
            res[c] = {"rc": rc, "subs": subs[:12], "s": round(time.time() - t0), "last": lines[-1][:200] if lines else o[-300:]}
        out["checks"] = res
        out["caught_by"] = [c for c, r in res.items() if r["rc"] == 1]
    finally:
        sh(["git", "-C", "/repo", "worktree", "remove", "--force", wt])
        shutil.rmtree(wt, ignore_errors=True)
    print(json.dumps(out, indent=1))
    return 0


if __name__ == "__main__":
    sys.exit(main())
