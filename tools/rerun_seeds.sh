#!/bin/sh
# re-runs every kept seeded change (and own mutant) against the current checks (no baseline tests); writes seeded/RERUN.txt
cd "$(dirname "$0")/.." || exit 2
OUT=seeded/RERUN.txt
TMP=$(mktemp -d)
ls -d seeded/*/ mutants/*/ | xargs -P 4 -I{} sh -c 'n=$(basename {}); python3 tools/seedtest.py {} --no-tests > '"$TMP"'/$n.json 2>&1'
python3 - "$TMP" > $OUT <<'PY'
import json,glob,os,sys
rows=[]
for f in sorted(glob.glob(sys.argv[1]+'/*.json')):
    n=os.path.basename(f)[:-5]
    try:
        d=json.load(open(f)); c=d.get('checks',{})
        rows.append("%-28s %s %s" % (n, "CAUGHT" if d.get('caught_by') else "MISSED", {k:(v['rc'],v['subs'][:4]) for k,v in c.items()}))
    except Exception as e:
        rows.append("%-28s ERROR %s" % (n, e))
print("\n".join(rows))
PY
rm -rf "$TMP"
grep -c CAUGHT $OUT; grep -v CAUGHT $OUT
