#!/bin/sh
# runs every registered check of a tier sequentially; prints one line per property
cd "$(dirname "$0")/.." || exit 2
TIER=${1:-quick}
for p in C01 C02 C03 C04 C05 C06 C07 C08 C09 C10 C11 C12 C13 C14 C15 C16 C17 C18 C19 C20; do
  /usr/bin/time -f "%es" ./check $p --tier $TIER 2>&1 | grep -E "^(HELD|VIOLAT|INCONCL|KNOWN|[0-9.]+s)" | tr '\n' ' '
  echo
done
