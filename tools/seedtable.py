#!/usr/bin/env python3
"""Prints the markdown table of section 8 of DESIGN.md from seeded/*/meta.json and mutants/."""
import json, glob, os
H = os.path.dirname(os.path.dirname(os.path.abspath(__file__)))
rows = []
for d in sorted(x for x in glob.glob(os.path.join(H, "seeded", "*")) if os.path.isdir(x)):
    m = json.load(open(os.path.join(d, "meta.json")))
    c = m["confirmed_here"]
    subs = []
    for chk, v in c["checks_run"].items():
        subs += ["%s:%s" % (chk, s) for s in v["sub_checks_fired"][:3]]
    what = (m.get("what_changed") or "").replace("\n", " ").replace("|", "/")
    need = (m.get("needs_to_manifest") or "").replace("\n", " ").replace("|", "/")
    rows.append("| %s | %s | %s | %s | %s |" % (os.path.basename(d), ", ".join(m.get("files_changed") or [])[:60], what[:170], need[:150],
                                              ", ".join(c["caught_by"] or ["MISSED"]) + " (" + ", ".join(s.split(":")[1] for s in subs[:3]) + ")"))
print("| seeded change | files | what was changed | needs, to manifest | caught by (first sub-checks that fired) |")
print("|---|---|---|---|---|")
print("\n".join(rows))
